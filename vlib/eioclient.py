"""Scripted engine.io clients (DESIGN 2.1-2).

socketio.Client / AsyncClient run unmodified on top of a subclass of the real
engineio.Client / AsyncClient whose *network* is replaced while its state
machine (state, disconnect(), _receive_packet, _trigger_event, _reset) is the
real one.  The "server" is a script object reacting to the packets the client
sends.

Threaded client: background tasks are never run inline; they are queued and
run when the triggering harness call has returned and inside every
VirtualEvent.wait() - the two places where, in real life, other threads make
progress.
"""
import asyncio
import collections
import sys
import traceback

import engineio
from engineio import base_client as eio_base_client
from engineio import packet as eio_packet

from . import refcodec as R
from .drive import ErrorLog, make_logger
from .vtime import VirtualLoop, settle


class Task:
    def __init__(self, h, target, args, kwargs):
        self.h = h
        self.target, self.args, self.kwargs = target, args, kwargs
        self.state = 'pending'
        self.name = getattr(target, '__name__', repr(target))

    def run(self):
        self.state = 'running'
        try:
            self.target(*self.args, **self.kwargs)
        except BaseException as e:  # noqa
            self.h.errors.append({
                'where': 'background task %s' % self.name,
                'exc': type(e).__name__, 'msg': str(e)[:200],
                'tb': traceback.format_exc()[-3000:]})
        finally:
            self.state = 'done'

    def join(self, timeout=None):
        if self.state == 'pending':
            self.h.pump(until=self)
        # joining the running task (ourselves) returns at once

    def is_alive(self):
        return self.state != 'done'


class DummyTask:
    def join(self, timeout=None):
        pass

    def is_alive(self):
        return False


class HEvent:
    """Scheduler-less virtual Event for the threaded client."""

    def __init__(self, h, label):
        self.h = h
        self.label = label
        self._flag = False
        self.wait_seq = 0

    def is_set(self):
        return self._flag

    def set(self):
        self._flag = True

    def clear(self):
        self._flag = False

    def wait(self, timeout=None):
        h = self.h
        self.wait_seq += 1
        h.waits.append((self.label, timeout))
        h.log.append(('wait', self.label, timeout))
        hook = getattr(h, 'wait_enter_hook', None)
        if hook is not None:
            hook(self, timeout)
        for _ in range(10000):
            h.pump()
            if self._flag:
                return True
            if not h.on_idle_wait(self, timeout):
                break
        return self._flag


class ServerScript:
    """Default scripted server: accepts every CONNECT."""

    def __init__(self):
        self.n = 0

    def on_packet(self, h, pkt):
        if pkt['type'] == R.CONNECT:
            self.n += 1
            h.deliver(R.CONNECT, pkt['nsp'], None,
                      {'sid': 'srv-sid-%d' % self.n})


class _HarnessBase:
    def _init_common(self, serializer, script):
        self.serializer = serializer
        self.script = script or ServerScript()
        self.errlog = ErrorLog()
        self.errors = []
        self.log = []             # global ordered log
        self.sent = []            # decoded socket.io packets from the client
        self.raw_sent = []
        self.asm = R.Assembler(serializer)
        self.attempts = []        # engine.io connection attempts
        self.plan = []            # outcomes of successive attempts
        self.waits = []
        self.eio_sids = 0
        self.eio_closes = 0
        self.frames_after_close = 0
        self.raw_hook = None       # bridge: gets every engine.io packet
        self.connect_hook = None   # bridge: called when the transport opens

    def next_outcome(self):
        if self.plan:
            return self.plan.pop(0)
        return 'ok'

    def _client_sent(self, pkt):
        if pkt.packet_type == eio_packet.CLOSE:
            self.eio_closes += 1
            self.log.append(('eio_close',))
            return None
        if pkt.packet_type != eio_packet.MESSAGE:
            return None
        self.raw_sent.append(pkt.data)
        try:
            d = self.asm.feed(pkt.data)
        except Exception as e:
            self.errors.append({'where': 'client sent undecodable frame',
                                'exc': type(e).__name__, 'msg': repr(e),
                                'tb': repr(pkt.data)[:300]})
            return None
        if d is not None:
            d['epoch'] = len(self.attempts)
            self.sent.append(d)
            self.log.append(('sent', d))
        return d

    def frames_for(self, ptype, ns, pid, data):
        if self.serializer == 'msgpack':
            return [R.msgpack_encode(ptype, ns, pid, data)]
        text, atts = R.encode(ptype, ns, pid, data)
        return [text] + atts

    def all_errors(self):
        return self.errors + [
            {'where': 'logged by ' + r['logger'], 'exc': r['exc'],
             'msg': r['msg'], 'tb': r['tb']}
            for r in self.errlog.exceptions()]

    def clear_errors(self):
        del self.errors[:]
        self.errlog.records.clear()


# ------------------------------------------------------------------ sync
def _make_sync_eio(h):
    class ScriptedEio(engineio.Client):
        def _connect_any(self, url, headers, engineio_path):
            outcome = h.next_outcome()
            h.attempts.append({'url': url, 'headers': dict(headers),
                               'transports': list(self.transports),
                               'path': engineio_path, 'outcome': outcome})
            h.log.append(('attempt', len(h.attempts), outcome))
            if outcome != 'ok':
                self._reset()
                raise engineio.exceptions.ConnectionError(*outcome[1:])
            h.eio_sids += 1
            self.sid = 'eio-%d' % h.eio_sids
            self.upgrades = []
            self.ping_interval = 25
            self.ping_timeout = 20
            self.current_transport = self.transports[0]
            self.state = 'connected'
            h.asm = R.Assembler(h.serializer)
            eio_base_client.connected_clients.append(self)
            if h.connect_hook is not None:
                h.connect_hook()
            try:
                self._trigger_event('connect', run_async=False)
            except Exception as exc:
                eio_base_client.connected_clients.remove(self)
                self._reset()
                raise engineio.exceptions.ConnectionError(
                    'Connect handler failed: ' + str(exc))
            self.write_loop_task = DummyTask()
            self.read_loop_task = DummyTask()
            if getattr(h, 'eager_after_connect', False):
                # the real client has started its read-loop thread by now: it
                # may process the server's first answers before connect()
                # returns to its caller
                h.pump()

        _connect_polling = _connect_any
        _connect_websocket = _connect_any

        def _send_packet(self, pkt):
            if self.state != 'connected':
                if pkt.packet_type == eio_packet.MESSAGE:
                    h.frames_after_close += 1
                return
            if h.raw_hook is not None:
                h._client_sent(pkt)
                h.raw_hook(pkt)
                return
            d = h._client_sent(pkt)
            if d is not None:
                h.script.on_packet(h, d)

        def start_background_task(self, target, *args, **kwargs):
            return h.defer(target, args, kwargs)

        def create_event(self, *args, **kwargs):
            try:
                label = sys._getframe(1).f_code.co_name
            except Exception:
                label = '?'
            return HEvent(h, label)

        def sleep(self, seconds=0):
            h.log.append(('sleep', seconds))

    return ScriptedEio


class SyncClientHarness(_HarnessBase):
    is_async = False

    def __init__(self, serializer='default', script=None, client_kw=None):
        import socketio
        self._init_common(serializer, script)
        self.deferred = collections.deque()
        self.idle_hook = None
        eio_cls = _make_sync_eio(self)

        class VClient(socketio.Client):
            def _engineio_client_class(self):
                return eio_cls
        kw = dict(handle_sigint=False, serializer=serializer,
                  logger=make_logger('sio.client', self.errlog),
                  engineio_logger=make_logger('eio.client', self.errlog))
        kw.update(client_kw or {})
        self.c = VClient(**kw)
        self.eio = self.c.eio

    # background tasks ----------------------------------------------------
    def defer(self, target, args, kwargs):
        t = Task(self, target, args, kwargs)
        self.deferred.append(t)
        return t

    def pump(self, until=None):
        n = 0
        while self.deferred and n < 100000:
            t = self.deferred.popleft()
            t.run()
            n += 1
            if until is not None and t is until:
                return

    def on_idle_wait(self, ev, timeout):
        """Called when the client blocks and nothing is runnable.  Returns
        True if it made something happen."""
        if self.idle_hook is not None:
            return bool(self.idle_hook(ev, timeout))
        return False

    # driving ------------------------------------------------------------
    def call(self, fn, *a, **kw):
        """Run a client API call, then let background work proceed."""
        try:
            return fn(*a, **kw)
        finally:
            self.pump()

    def api(self, name, *a, **kw):
        return self.call(getattr(self.c, name), *a, **kw)

    def on(self, event, fn, namespace=None, coroutine=None):
        self.c.on(event, fn, namespace=namespace)

    def feed(self, frame):
        if self.eio.state != 'connected':
            return False
        self.eio._receive_packet(eio_packet.Packet(eio_packet.MESSAGE,
                                                   frame))
        return True

    def deliver(self, ptype, ns=None, pid=None, data=None, partial=None):
        """Server -> client packet (queued for the client's handler
        thread); call pump() / any API call to let it be processed."""
        frames = self.frames_for(ptype, ns, pid, data)
        if partial is not None:
            frames = frames[:partial]
        for f in frames:
            self.feed(f)

    def server_send(self, ptype, ns=None, pid=None, data=None, partial=None):
        self.deliver(ptype, ns, pid, data, partial)
        self.pump()

    def server_close(self):
        """engine.io CLOSE from the server."""
        if self.eio.state == 'connected':
            self.eio._receive_packet(eio_packet.Packet(eio_packet.CLOSE))
        self.pump()

    def lose(self, pump=True):
        """Transport loss, as the read loop reports it."""
        eio = self.eio
        if eio.state == 'connected':
            eio._trigger_event('disconnect', eio.reason.TRANSPORT_ERROR,
                               run_async=False)
            try:
                eio_base_client.connected_clients.remove(eio)
            except ValueError:
                pass
            eio._reset()
        if pump:
            self.pump()

    def close(self):
        try:
            eio_base_client.connected_clients.remove(self.eio)
        except ValueError:
            pass


# ----------------------------------------------------------------- async
def _make_async_eio(h):
    class ScriptedAsyncEio(engineio.AsyncClient):
        async def _connect_any(self, url, headers, engineio_path):
            outcome = h.next_outcome()
            h.attempts.append({'url': url, 'headers': dict(headers),
                               'transports': list(self.transports),
                               'path': engineio_path, 'outcome': outcome,
                               'time': h.loop.time()})
            h.log.append(('attempt', len(h.attempts), outcome))
            if outcome != 'ok':
                await self._reset()
                raise engineio.exceptions.ConnectionError(*outcome[1:])
            h.eio_sids += 1
            self.sid = 'eio-%d' % h.eio_sids
            self.upgrades = []
            self.ping_interval = 25
            self.ping_timeout = 20
            self.current_transport = self.transports[0]
            self.state = 'connected'
            h.asm = R.Assembler(h.serializer)
            eio_base_client.connected_clients.append(self)
            if h.connect_hook is not None:
                r = h.connect_hook()
                if asyncio.iscoroutine(r):
                    await r
            try:
                await self._trigger_event('connect', run_async=False)
            except Exception as exc:
                eio_base_client.connected_clients.remove(self)
                await self._reset()
                raise engineio.exceptions.ConnectionError(
                    'Connect handler failed: ' + str(exc))
            fut = h.loop.create_future()
            fut.set_result(None)
            self.write_loop_task = fut
            self.read_loop_task = fut

        _connect_polling = _connect_any
        _connect_websocket = _connect_any

        async def _send_packet(self, pkt):
            if self.state != 'connected':
                if pkt.packet_type == eio_packet.MESSAGE:
                    h.frames_after_close += 1
                return
            if h.raw_hook is not None:
                h._client_sent(pkt)
                await h.raw_hook(pkt)
                return
            d = h._client_sent(pkt)
            if d is not None:
                h.script.on_packet(h, d)

        def start_background_task(self, target, *args, **kwargs):
            # same observability as the threaded harness: an exception that
            # ends a background task is recorded when it happens (asyncio
            # itself reports it only when the task object is collected)
            name = getattr(target, '__name__', repr(target))

            async def runner():
                try:
                    return await target(*args, **kwargs)
                except asyncio.CancelledError:
                    raise
                except BaseException as e:  # noqa
                    h.errors.append({
                        'where': 'background task %s' % name,
                        'exc': type(e).__name__, 'msg': str(e)[:200],
                        'tb': traceback.format_exc()[-3000:]})
                    raise
            t = asyncio.ensure_future(runner())
            t.add_done_callback(
                lambda t: t.cancelled() or t.exception())
            return t

    return ScriptedAsyncEio


class AsyncClientHarness(_HarnessBase):
    is_async = True

    def __init__(self, serializer='default', script=None, client_kw=None,
                 loop=None):
        import socketio
        self._init_common(serializer, script)
        self.loop = loop or VirtualLoop()
        self.loop.set_exception_handler(self._loop_exc)
        asyncio.set_event_loop(self.loop)
        eio_cls = _make_async_eio(self)

        class VClient(socketio.AsyncClient):
            def _engineio_client_class(self):
                return eio_cls
        kw = dict(handle_sigint=False, serializer=serializer,
                  logger=make_logger('sio.client', self.errlog),
                  engineio_logger=make_logger('eio.client', self.errlog))
        kw.update(client_kw or {})
        self.c = VClient(**kw)
        self.eio = self.c.eio
        self.horizon = 5.0
        self._pending_feeds = []

    def _loop_exc(self, loop, context):
        e = context.get('exception')
        self.errors.append({
            'where': 'asyncio: ' + str(context.get('message'))[:200],
            'exc': type(e).__name__ if e else 'loop-error',
            'msg': str(e)[:200] if e else '',
            'tb': ''.join(traceback.format_exception(
                type(e), e, e.__traceback__))[-3000:] if e else None})

    def run(self, coro, horizon=None):
        async def w():
            try:
                return await coro
            finally:
                await settle(self.loop, horizon=self.horizon
                             if horizon is None else horizon)
        asyncio.set_event_loop(self.loop)
        return self.loop.run_until_complete(w())

    def call(self, fn, *a, **kw):
        r = fn(*a, **kw)
        if asyncio.iscoroutine(r):
            return self.run(r)
        return r

    def api(self, name, *a, **kw):
        return self.call(getattr(self.c, name), *a, **kw)

    def on(self, event, fn, namespace=None, coroutine=True):
        from .drive import wrap_handler
        self.c.on(event, wrap_handler(fn, True, coroutine),
                  namespace=namespace)

    def pump(self):
        async def nop():
            pass
        self.run(nop())

    # server -> client, usable from inside the loop (reactions) ------------
    def deliver(self, ptype, ns=None, pid=None, data=None, partial=None):
        frames = self.frames_for(ptype, ns, pid, data)
        if partial is not None:
            frames = frames[:partial]

        async def go():
            for f in frames:
                if self.eio.state != 'connected':
                    return
                await self.eio._receive_packet(eio_packet.Packet(
                    eio_packet.MESSAGE, f))
        try:
            asyncio.get_running_loop()
        except RuntimeError:
            self.run(go())
        else:
            t = self.loop.create_task(go())
            self._pending_feeds.append(t)

    def server_send(self, ptype, ns=None, pid=None, data=None, partial=None):
        self.deliver(ptype, ns, pid, data, partial)
        self.pump()

    def feed(self, frame):
        async def go():
            if self.eio.state != 'connected':
                return
            await self.eio._receive_packet(eio_packet.Packet(
                eio_packet.MESSAGE, frame))
        try:
            asyncio.get_running_loop()
        except RuntimeError:
            self.run(go())
        else:
            self.loop.create_task(go())

    async def a_server_close(self):
        if self.eio.state == 'connected':
            await self.eio._receive_packet(eio_packet.Packet(
                eio_packet.CLOSE))

    def server_close(self):
        self.run(self.a_server_close())

    async def a_lose(self):
        eio = self.eio
        if eio.state == 'connected':
            await eio._trigger_event('disconnect',
                                     eio.reason.TRANSPORT_ERROR,
                                     run_async=False)
            try:
                eio_base_client.connected_clients.remove(eio)
            except ValueError:
                pass
            await eio._reset()

    def lose(self, pump=True):
        self.run(self.a_lose())

    def close(self):
        try:
            eio_base_client.connected_clients.remove(self.eio)
        except ValueError:
            pass
        try:
            for task in asyncio.all_tasks(self.loop):
                task.cancel()
            self.loop.run_until_complete(asyncio.sleep(0))
        except Exception:
            pass
        self.loop.close()


def make_client(kind, **kw):
    return AsyncClientHarness(**kw) if kind == 'async' \
        else SyncClientHarness(**kw)
