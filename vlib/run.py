import os
import sys
sys.path.insert(0, os.path.dirname(os.path.dirname(os.path.abspath(__file__))))
from vlib import core  # noqa: E402

if __name__ == '__main__':
    core.main()
