"""Controlled schedulers (DESIGN 2.5).

ThreadScheduler: the actors run in real threads but only one runs at a time;
at every yield point the running thread hands control to the scheduler, which
picks the next thread from the schedule being explored (DFS with replay) or
from a seeded PRNG.

AsyncGate: actors are asyncio tasks that await a gate at every legitimate
suspension point; a controller releases one parked task at a time.
"""
import asyncio
import threading


class Deadlock(Exception):
    pass


class ThreadScheduler:
    def __init__(self, choices=None, rng=None, preemption_bound=None,
                 max_steps=20000, switch_prob=None):
        self.cond = threading.Condition()
        self.choices = list(choices or [])
        self.rng = rng
        self.preemption_bound = preemption_bound
        self.max_steps = max_steps
        self.switch_prob = switch_prob
        self.actors = []          # dicts: fn, thread, state
        self.current = None
        self.trace = []           # (n_options, chosen)
        self.labels = []          # (actor, label) in execution order
        self.preemptions = 0
        self.by_ident = {}
        self.errors = []
        self.aborted = None
        self.steps = 0

    # ------------------------------------------------------------ actors
    def spawn(self, name, fn):
        self.actors.append({'name': name, 'fn': fn, 'state': 'new',
                            'blocked_on': None, 'exc': None,
                            'can_timeout': False, 'timed_out': False})
        return len(self.actors) - 1

    def me(self):
        return self.by_ident.get(threading.get_ident())

    def _enabled(self):
        out = []
        for i, a in enumerate(self.actors):
            if a['state'] in ('ready', 'running'):
                if a['blocked_on'] is None or a['blocked_on']():
                    out.append(i)
        return out

    def _pick(self, me):
        """Choose who runs next (holding the lock)."""
        enabled = self._enabled()
        if not enabled:
            # quiescence: a wait with a timeout may now expire (never while
            # somebody else could still run)
            waiting = [i for i, a in enumerate(self.actors)
                       if a['state'] in ('ready', 'running') and
                       a['blocked_on'] is not None and a['can_timeout']]
            if not waiting:
                return None
            if len(waiting) > 1:
                k = len(self.trace)
                if k < len(self.choices):
                    c = self.choices[k] if self.choices[k] < len(waiting) \
                        else 0
                elif self.rng is not None:
                    c = self.rng.randrange(len(waiting))
                else:
                    c = 0
                self.trace.append((len(waiting), c))
            else:
                c = 0
            i = waiting[c]
            self.actors[i]['timed_out'] = True
            self.actors[i]['blocked_on'] = None
            return i
        # option 0 = keep running the current actor when possible
        if me in enabled:
            options = [me] + [i for i in enabled if i != me]
        else:
            options = enabled
        if self.preemption_bound is not None and me in enabled and \
                self.preemptions >= self.preemption_bound:
            options = [me]
        if len(options) == 1:
            return options[0]
        k = len(self.trace)
        if k < len(self.choices):
            c = self.choices[k]
            if c >= len(options):
                c = 0
        elif self.rng is not None:
            if self.switch_prob is not None and me in enabled:
                # mostly keep running; pre-empt at a few random points
                c = self.rng.randrange(1, len(options)) \
                    if self.rng.random() < self.switch_prob else 0
            else:
                c = self.rng.randrange(len(options))
        else:
            c = 0
        self.trace.append((len(options), c))
        chosen = options[c]
        if me in enabled and chosen != me:
            self.preemptions += 1
        return chosen

    def _switch(self, me):
        """Called with the lock held by actor `me` (or the controller when
        me is None)."""
        self.steps += 1
        if self.steps > self.max_steps:
            self.aborted = 'step limit'
            self.current = -1
            self.cond.notify_all()
            raise Deadlock('step limit')
        nxt = self._pick(me)
        if nxt is None:
            # nobody can run
            alive = [a for a in self.actors if a['state'] != 'done']
            if alive:
                self.aborted = 'deadlock'
            self.current = -1
            self.cond.notify_all()
            return
        self.current = nxt
        self.cond.notify_all()

    def yield_point(self, label=''):
        me = self.me()
        if me is None:
            return
        with self.cond:
            self.labels.append((me, label))
            self._switch(me)
            while self.current != me:
                if self.aborted:
                    raise Deadlock(self.aborted)
                self.cond.wait(5)

    def block_until(self, predicate, label='block', can_timeout=False):
        """Scheduler-aware blocking: the actor is not schedulable until
        predicate() is true.  With can_timeout the wait expires (returns
        False) - but only at quiescence, when no other actor can run."""
        me = self.me()
        if me is None:
            return predicate()
        with self.cond:
            a = self.actors[me]
            a['blocked_on'] = predicate
            a['can_timeout'] = can_timeout
            a['timed_out'] = False
            self.labels.append((me, label))
            self._switch(me)
            while self.current != me:
                if self.aborted:
                    raise Deadlock(self.aborted)
                self.cond.wait(5)
            a['blocked_on'] = None
            a['can_timeout'] = False
            if a['timed_out']:
                a['timed_out'] = False
                self.labels.append((me, 'timeout'))
                return False
            return True

    def _runner(self, i):
        a = self.actors[i]
        self.by_ident[threading.get_ident()] = i
        with self.cond:
            a['state'] = 'ready'
            self.cond.notify_all()
            while self.current != i:
                if self.aborted:
                    a['state'] = 'done'
                    return
                self.cond.wait(5)
            a['state'] = 'running'
        try:
            a['fn']()
        except Deadlock:
            pass
        except BaseException as e:  # noqa
            import traceback
            a['exc'] = e
            self.errors.append({'actor': a['name'],
                                'exc': type(e).__name__, 'msg': str(e)[:200],
                                'tb': traceback.format_exc()[-2500:]})
        with self.cond:
            a['state'] = 'done'
            try:
                self._switch(None)
            except Deadlock:
                pass

    def run(self, timeout=30):
        threads = []
        for i in range(len(self.actors)):
            th = threading.Thread(target=self._runner, args=(i,),
                                  daemon=True)
            threads.append(th)
            th.start()
        with self.cond:
            while any(a['state'] == 'new' for a in self.actors):
                self.cond.wait(1)
            self._switch(None)
        for th in threads:
            th.join(timeout)
        if any(th.is_alive() for th in threads):
            with self.cond:
                self.aborted = self.aborted or 'timeout'
                self.current = -1
                self.cond.notify_all()
            for th in threads:
                th.join(2)
        return self.trace


def next_schedule(trace):
    """DFS successor of a completed trace [(n_options, chosen), ...];
    returns the next list of choices or None when the space is exhausted."""
    t = list(trace)
    while t:
        n, c = t[-1]
        if c + 1 < n:
            return [x[1] for x in t[:-1]] + [c + 1]
        t.pop()
    return None


# -------------------------------------------------------------- asyncio
class SchedEvent:
    """threading.Event look-alike: every operation is a yield point and
    waiting is visible to the scheduler."""

    def __init__(self, sched, name='ev'):
        self.sched = sched
        self.name = name
        self._flag = False

    def is_set(self):
        self.sched.yield_point(self.name + '.is_set')
        return self._flag

    def set(self):
        self.sched.yield_point(self.name + '.set')
        self._flag = True

    def clear(self):
        self.sched.yield_point(self.name + '.clear')
        self._flag = False

    def wait(self, timeout=None):
        self.sched.yield_point(self.name + '.wait')
        if self._flag:
            return True
        if self.sched.me() is None:
            return self._flag
        return self.sched.block_until(lambda: self._flag,
                                      self.name + '.blocked',
                                      can_timeout=timeout is not None)


class SchedList(list):
    """list whose operations are yield points; appends are logged."""

    def __init__(self, sched, items=(), log=None):
        super().__init__(items)
        self.sched = sched
        self.log = log if log is not None else []

    def append(self, x):
        self.sched.yield_point('buf.append')
        super().append(x)
        self.log.append(('append', x))

    def pop(self, i=-1):
        self.sched.yield_point('buf.pop')
        x = super().pop(i)
        self.log.append(('pop', x))
        return x

    def __bool__(self):
        self.sched.yield_point('buf.bool')
        return super().__len__() > 0

    def __len__(self):
        return super().__len__()


class AsyncGate:
    """Every legitimate suspension point of the actors awaits gate.pause();
    the controller releases one parked actor at a time, chosen by the
    schedule."""

    def __init__(self, choices=None, rng=None):
        self.choices = list(choices or [])
        self.rng = rng
        self.parked = []           # (order, name, label, future)
        self.trace = []
        self.labels = []
        self.n = 0
        self.active = True

    async def pause(self, label=''):
        if not self.active:
            return
        task = asyncio.current_task()
        name = getattr(task, 'vname', None)
        if name is None:
            return
        fut = asyncio.get_event_loop().create_future()
        self.n += 1
        self.parked.append((self.n, name, label, fut))
        await fut

    def spawn(self, name, coro):
        t = asyncio.ensure_future(coro)
        t.vname = name
        return t

    async def drive(self, tasks, settle, max_steps=5000):
        """Run until all tasks are done, releasing one parked actor at a
        time."""
        for _ in range(max_steps):
            await settle()
            if all(t.done() for t in tasks) and not self.parked:
                return True
            if not self.parked:
                # tasks not done but nothing parked: they wait for something
                # that will not happen
                if all(t.done() for t in tasks):
                    return True
                return False
            self.parked.sort(key=lambda p: (p[1], p[0]))
            options = list(range(len(self.parked)))
            if len(options) == 1:
                c = 0
            else:
                k = len(self.trace)
                if k < len(self.choices):
                    c = self.choices[k] if self.choices[k] < len(options) \
                        else 0
                elif self.rng is not None:
                    c = self.rng.randrange(len(options))
                else:
                    c = 0
                self.trace.append((len(options), c))
            order, name, label, fut = self.parked.pop(c)
            self.labels.append((name, label))
            if not fut.done():
                fut.set_result(None)
        return False


# ------------------------------------------------- statement-level yields
_LINE_TOOL = 4


def enable_lines(sched, files, tool=_LINE_TOOL):
    """Make every statement start in the given source files a yield point of
    the thread scheduler (sys.monitoring LINE events; actors only)."""
    import sys
    mon = sys.monitoring
    files = set(files)

    def on_line(code, line):
        if code.co_filename not in files:
            return mon.DISABLE
        if sched.me() is None:
            return None
        sched.yield_point('L%d' % line)
        return None
    try:
        mon.use_tool_id(tool, 'verif-lines')
    except ValueError:
        pass
    mon.register_callback(tool, mon.events.LINE, on_line)
    mon.set_events(tool, mon.events.LINE)
    # locations disabled by an earlier use (other file set) fire again
    mon.restart_events()


def disable_lines(tool=_LINE_TOOL):
    import sys
    mon = sys.monitoring
    try:
        mon.set_events(tool, 0)
        mon.register_callback(tool, mon.events.LINE, None)
        mon.free_tool_id(tool)
    except Exception:
        pass


# ------------------------------------------------ scheduler-aware locks
class SchedLock:
    """threading.Lock look-alike whose waiting is visible to the
    scheduler (a lock held by a descheduled actor must not block the running
    one outside the scheduler's control)."""

    def __init__(self, sched, reentrant=False):
        self.sched = sched
        self.owner = None
        self.reentrant = reentrant
        self.depth = 0

    def acquire(self, blocking=True, timeout=-1):
        me = self.sched.me()
        if self.reentrant and self.owner is not None and self.owner == (
                me if me is not None else -1):
            self.depth += 1
            return True
        if self.owner is not None:
            if not blocking:
                return False
            if me is not None:
                self.sched.block_until(lambda: self.owner is None, 'lock')
        self.owner = me if me is not None else -1
        self.depth = 1
        return True

    def release(self):
        self.depth -= 1
        if self.depth <= 0:
            self.owner = None
            self.depth = 0

    __enter__ = acquire

    def __exit__(self, *a):
        self.release()

    def locked(self):
        return self.owner is not None


class _ThreadingProxy:
    """Stands in for the `threading` module inside the modules under test:
    locks they create while a schedule runs are scheduler-aware."""

    def __init__(self, sched):
        import threading as _t
        self._t = _t
        self._sched = sched

    def Lock(self):
        return SchedLock(self._sched)

    def RLock(self):
        return SchedLock(self._sched, reentrant=True)

    def __getattr__(self, name):
        return getattr(self._t, name)


def patch_module_locks(sched, modules):
    """Returns an undo function."""
    proxy = _ThreadingProxy(sched)
    saved = []
    for m in modules:
        if getattr(m, 'threading', None) is not None:
            saved.append((m, m.threading))
            m.threading = proxy

    def undo():
        for m, orig in saved:
            m.threading = orig
    return undo


class DetectLock:
    """A real lock that notices the thread that holds it acquiring it
    again (a self-deadlock of a non-reentrant lock): recorded in `found` and
    turned into an exception instead of a thread that hangs for ever."""
    found = []

    def __init__(self, reentrant=False):
        import threading as _t
        self._t = _t
        self._l = _t.RLock() if reentrant else _t.Lock()
        self.reentrant = reentrant
        self.owner = None

    def acquire(self, blocking=True, timeout=-1):
        me = self._t.get_ident()
        if not self.reentrant and self.owner == me:
            import traceback
            DetectLock.found.append(''.join(traceback.format_stack(
                limit=14)))
            raise RuntimeError('self-deadlock: this thread already holds '
                               'the lock it is acquiring')
        ok = self._l.acquire(blocking, timeout)
        if ok and not self.reentrant:
            self.owner = me
        return ok

    def release(self):
        self.owner = None
        self._l.release()

    __enter__ = acquire

    def __exit__(self, *a):
        self.release()

    def locked(self):
        return self.owner is not None


class _DetectProxy:
    def __init__(self):
        import threading as _t
        self._t = _t

    def Lock(self):
        return DetectLock()

    def RLock(self):
        return DetectLock(reentrant=True)

    def __getattr__(self, name):
        return getattr(self._t, name)


def patch_module_detect_locks(modules):
    """Locks the given modules create from now on are DetectLocks.
    Returns an undo function."""
    proxy = _DetectProxy()
    saved = []
    for m in modules:
        if getattr(m, 'threading', None) is not None:
            saved.append((m, m.threading))
            m.threading = proxy

    def undo():
        for m, orig in saved:
            m.threading = orig
    return undo


def report_abort(ctx, sched, wit, what='schedule did not complete'):
    """A schedule that did not finish: 'deadlock' is the scheduler's own
    finding (every actor is blocked on something it controls - locks, events,
    waits): a violation.  Anything else ('timeout', 'step limit') means an
    actor blocked or span outside the scheduler's control: the harness cannot
    tell what that is - counted, and the run ends inconclusive."""
    wit['aborted'] = sched.aborted
    if sched.aborted == 'deadlock':
        ctx.violation(None, '%s: deadlock (every actor is blocked)' % what,
                      wit)
    else:
        ctx.count('schedules_stuck_outside_the_scheduler')
        ctx.extra.setdefault('stuck_schedules', [])
        if len(ctx.extra['stuck_schedules']) < 3:
            ctx.extra['stuck_schedules'].append(
                {k: wit[k] for k in wit if k in ('causes', 'choices',
                                                 'aborted', 'racers',
                                                 'scenario', 'side')})
