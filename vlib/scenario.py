"""Generic server scenario interpreter.

A scenario is a config + a list of ops (plain Python data).  The Runner
executes it against a real Server/AsyncServer through the direct-drive harness
and returns one result record per op: what was sent to which transport
(decoded by the reference codec), which application handlers/callbacks ran with
what, what the API call returned or raised, and what errors escaped.

Ops (T = transport index; SID = a literal str or ['sid', T, ns] meaning "the
latest sid the server issued to transport T on namespace ns"):

  ['open', T]
  ['connect', T, ns, auth]
  ['event', T, ns, name, args, id]            full event (text or binary)
  ['event_partial', T, ns, name, args, id, k] only the first k frames
  ['ack', T, ns, id, args]
  ['cdisc', T, ns]                            client DISCONNECT packet
  ['lose', T]                                 transport loss
  ['cclose', T]                               engine.io CLOSE from the client
  ['raw', T, frame]                           arbitrary frame (str/bytes)
  ['stale', T]                                client stopped answering pings
  ['enter', SID, room, ns] ['leave', SID, room, ns] ['close_room', room, ns]
  ['sdisc', SID, ns]                          server.disconnect()
  ['emit', token, to, skip, ns, cb, data, then]   to/skip may contain SIDs;
      then = ['leave'|'enter', sid, room, ns] | ['close_room', room, ns] |
      ['sdisc', sid, ns]: issued right after the emit, same coroutine
  ['rooms', SID, ns]
  ['save_session', SID, ns, value] ['get_session', SID, ns]
  ['session_block', SID, ns, updates, [fresh_session, more_updates]?]
  ['heartbeat', T]       one step of engine.io's ping task for the transport
  ['call', token, SID, ns, data, timeout, script]
"""
import asyncio
import traceback

from . import drive as D
from . import refcodec as R

EVENT_POOL = ['ev0', 'ev1', 'ev2', 'my event', 'é!', 'unhandled_x', 'ev_g']
CLASS_EVENTS = ['ev0', 'ev1', 'ev2']


class Injected(RuntimeError):
    pass


class InjectedBase(BaseException):
    """What a green-thread timeout or kill looks like to a handler: not an
    Exception subclass."""


def env_label(environ):
    if isinstance(environ, dict):
        return environ.get('verif.transport')
    return repr(environ)[:40]


def default_config(**kw):
    c = {
        'kind': 'sync', 'serializer': 'default', 'async_handlers': False,
        'always_connect': False, 'served': ['/', '/a', '/b'],
        'namespaces_opt': None,      # None | list | '*'
        'style': {},                 # ns -> 'func' | 'catchall' | 'class'
        'global_catchall': False,    # handlers registered under '*' ns
        'global_events': [],         # events registered under '*' ns only
        'global_class': False,       # class-based namespace registered for '*'
        'coroutines': True,          # async drive: coroutine handlers
        'connect_script': {},        # ns -> list of behaviours
        'returns': {},               # token -> handler return value
        'faults': [],                # handler invocation indices that raise
        'handled_events': ['ev0', 'ev1', 'ev2', 'my event', 'é!'],
    }
    c.update(kw)
    return c


class Runner:
    def __init__(self, config, drive_kw=None, pre_setup=None):
        self.cfg = config
        kw = dict(serializer=config['serializer'],
                  async_handlers=config['async_handlers'],
                  always_connect=config['always_connect'])
        if config.get('namespaces_opt') is not None:
            kw['namespaces'] = config['namespaces_opt']
        kw.update(drive_kw or {})
        self.d = D.make_drive(config['kind'], **kw)
        self.sio = self.d.sio
        self.T = {}
        self.events = []          # global ordered log (handlers, callbacks)
        self.invocations = 0
        self.faults = set(config.get('faults') or [])
        self.connect_script = {k: list(v) for k, v in
                               (config.get('connect_script') or {}).items()}
        # behaviours of the next disconnect handler invocations:
        # 'ok' | 'exc' (raises an Exception) | 'base' (a BaseException)
        self.disconnect_script = list(config.get('disconnect_behaviours')
                                      or [])
        self.sid_names = {}
        self.issued = {}          # (T, ns) -> [sids in order]
        self.all_sids = []
        if pre_setup:
            pre_setup(self)
        self._register()
        self._wrap_send()

    # ------------------------------------------------------------ handlers
    def _wrap_send(self):
        eio = self.d.eio
        orig = eio.send_packet
        runner = self

        if self.d.is_async:
            async def send_packet(sid, pkt):
                runner.events.append(('send', sid))
                return await orig(sid, pkt)
        else:
            def send_packet(sid, pkt):
                runner.events.append(('send', sid))
                return orig(sid, pkt)
        eio.send_packet = send_packet

    def _invoke(self, kind, ns, event, sid, args, via):
        n = self.invocations
        self.invocations += 1
        self.events.append(('handler', kind, ns, event, sid, list(args),
                            via, n))
        if kind == 'disconnect' and self.cfg.get('disconnect_reads_environ'):
            # a disconnect handler that looks the departing client's request
            # environment up (to log its address, say)
            try:
                seen = env_label(self.sio.get_environ(sid, namespace=ns))
            except Exception as e:
                seen = 'raised ' + type(e).__name__
            self.events.append(('observe', 'environ_in_disconnect_handler',
                                ns, seen))
        if n in self.faults:
            if self.cfg.get('fault_exc') == 'cancelled' and \
                    kind == 'disconnect' and self.d.is_async and \
                    self.cfg.get('coroutines', True):
                # a coroutine disconnect handler that ends in CancelledError
                # (it awaited a task of the application that was cancelled):
                # the library treats it as a handler that returned nothing
                raise asyncio.CancelledError()
            raise Injected('injected fault at handler invocation %d' % n)
        if kind == 'disconnect' and self.disconnect_script:
            beh = self.disconnect_script.pop(0)
            if beh == 'exc':
                raise Injected('injected fault in disconnect handler')
            if beh == 'base':
                raise InjectedBase('injected non-Exception in disconnect '
                                   'handler')
        if kind == 'disconnect' and self.cfg.get('disconnect_emits'):
            # a handler that tells a room, in two emits, that the client left
            room = self.cfg['disconnect_emits']
            sio = self.sio
            self.leave_notes = getattr(self, 'leave_notes', 0) + 1
            k = self.leave_notes
            return D.Do(None, [
                lambda: sio.emit('tokleft%d' % k, {'sid': 'x'}, to=room,
                                 namespace=ns),
                lambda: sio.emit('tokleftrooms%d' % k, {'sid': 'x'},
                                 to=room, namespace=ns)])
        if kind == 'connect':
            script = self.connect_script.get(ns)
            beh = script.pop(0) if script else 'accept'
            if beh == 'accept':
                return None
            if beh == 'true':
                return True
            if beh == 'false':
                return False
            if beh == 'crash':
                # the application's connect handler fails with an unexpected
                # exception: the client is not connected
                raise Injected('connect handler crashed')
            if isinstance(beh, (list, tuple)) and beh[0] == 'refuse':
                import socketio
                raise socketio.exceptions.ConnectionRefusedError(*beh[1:])
            raise ValueError('bad connect behaviour %r' % (beh,))
        if kind == 'event':
            tok = args[0] if args and isinstance(args[0], (int, str)) \
                and not isinstance(args[0], bool) else None
            rets = self.cfg.get('returns') or {}
            ret = rets.get(tok, rets.get(str(tok)))
            if tok in (self.cfg.get('bye_tokens') or ()):
                # a "bye" handler: it disconnects the sender, then returns
                # its value
                sio = self.sio
                return D.Do(ret, [lambda: sio.disconnect(sid,
                                                         namespace=ns)])
            delay = (self.cfg.get('delays') or {}).get(tok)
            if delay is not None:
                return D.Delay(ret, delay, lambda: self.events.append(
                    ('handler_done', n)))
            return ret
        return None

    def _register(self):
        cfg = self.cfg
        d = self.d
        runner = self
        handled = cfg['handled_events']
        co = cfg.get('coroutines', True)
        for ns in cfg['served']:
            style = cfg['style'].get(ns, 'func')
            if style == 'func' or style == 'catchall':
                d.on('connect', self._mk_connect(ns, 'func'), ns, co)
                d.on('disconnect', self._mk_disconnect(ns, 'func'), ns, co)
                if style == 'func':
                    for ev in handled:
                        d.on(ev, self._mk_event(ns, ev, 'func'), ns, co)
                else:
                    d.on('*', self._mk_catchall(ns), ns, co)
            elif style == 'class':
                self.sio.register_namespace(self._mk_class(ns))
            elif style == 'events_only':
                # handlers for the application's events only: connects and
                # disconnects of this namespace are handled elsewhere (under
                # the catch-all namespace) or not at all
                for ev in handled:
                    d.on(ev, self._mk_event(ns, ev, 'func'), ns, co)
            elif style == 'none':
                pass
        for gev in cfg.get('global_events') or []:
            def g_ev(ns, sid, *args, _ev=gev):
                return runner._invoke('event', ns, _ev, sid, args, 'global')
            d.on(gev, g_ev, '*', co)
        if cfg.get('global_class'):
            self.sio.register_namespace(self._mk_global_class())
        if cfg.get('global_catchall'):
            def g_connect(ns, sid, environ, auth=None):
                return runner._invoke('connect', ns, 'connect', sid,
                                      [auth, env_label(environ)], 'global')

            def g_disconnect(ns, sid, reason):
                return runner._invoke('disconnect', ns, 'disconnect', sid,
                                      [reason], 'global')

            def g_any(event, ns, sid, *args):
                return runner._invoke('event', ns, event, sid, args,
                                      'global*')
            d.on('connect', g_connect, '*', co)
            d.on('disconnect', g_disconnect, '*', co)
            d.on('*', g_any, '*', co)

    def _mk_connect(self, ns, via):
        if (self.cfg.get('connect_signature') or {}).get(ns) == 'required':
            # a handler that declares auth as a required third positional:
            # for a client without auth payload the server first tries
            # (sid, environ) and, on TypeError, again with auth=None
            def connect(sid, environ, auth):
                return self._invoke('connect', ns, 'connect', sid,
                                    [auth, env_label(environ)], via)
            return connect

        def connect(sid, environ, auth=None):
            return self._invoke('connect', ns, 'connect', sid,
                                [auth, env_label(environ)], via)
        return connect

    def _mk_disconnect(self, ns, via):
        def disconnect(sid, reason):
            return self._invoke('disconnect', ns, 'disconnect', sid,
                                [reason], via)
        return disconnect

    def _mk_event(self, ns, ev, via):
        def handler(sid, *args):
            return self._invoke('event', ns, ev, sid, args, via)
        return handler

    def _mk_catchall(self, ns):
        def handler(event, sid, *args):
            return self._invoke('event', ns, event, sid, args, 'catchall')
        return handler

    def _mk_class(self, ns):
        import socketio
        runner = self
        is_async = self.d.is_async
        base = socketio.AsyncNamespace if is_async else socketio.Namespace
        co = self.cfg.get('coroutines', True) and is_async
        body = {}

        def add(name, fn):
            h = D.wrap_handler(fn, is_async, co)
            if co:
                async def m(self_, *a):
                    return await h(*a)
            else:
                def m(self_, *a):
                    return h(*a)
            body[name] = m
        if (self.cfg.get('connect_signature') or {}).get(ns) == 'required':
            add('on_connect', lambda sid, environ, auth: runner._invoke(
                'connect', ns, 'connect', sid, [auth, env_label(environ)],
                'class'))
        else:
            add('on_connect', lambda sid, environ, auth=None:
                runner._invoke('connect', ns, 'connect', sid,
                               [auth, env_label(environ)], 'class'))
        add('on_disconnect', lambda sid, reason: runner._invoke(
            'disconnect', ns, 'disconnect', sid, [reason], 'class'))
        for ev in CLASS_EVENTS:
            add('on_' + ev, (lambda ev: lambda sid, *args: runner._invoke(
                'event', ns, ev, sid, args, 'class'))(ev))
        cls = type('VNamespace', (base,), body)
        return cls(ns)

    def _mk_global_class(self):
        """Class-based namespace registered for '*': its methods get the
        namespace prepended."""
        import socketio
        runner = self
        is_async = self.d.is_async
        base = socketio.AsyncNamespace if is_async else socketio.Namespace
        co = self.cfg.get('coroutines', True) and is_async
        body = {}

        def add(name, fn):
            h = D.wrap_handler(fn, is_async, co)
            if co:
                async def m(self_, *a):
                    return await h(*a)
            else:
                def m(self_, *a):
                    return h(*a)
            body[name] = m
        add('on_connect', lambda ns, sid, environ, auth=None:
            runner._invoke('connect', ns, 'connect', sid,
                           [auth, env_label(environ)], 'global_class'))
        add('on_disconnect', lambda ns, sid, reason: runner._invoke(
            'disconnect', ns, 'disconnect', sid, [reason], 'global_class'))
        for ev in CLASS_EVENTS:
            add('on_' + ev, (lambda ev: lambda ns, sid, *args:
                             runner._invoke('event', ns, ev, sid, args,
                                            'global_class'))(ev))
        cls = type('VGlobalNamespace', (base,), body)
        return cls('*')

    # ------------------------------------------------------------ helpers
    def sid_of(self, ref):
        if isinstance(ref, (list, tuple)) and len(ref) >= 3 and \
                ref[0] == 'sid':
            lst = self.issued.get((ref[1], ref[2])) or []
            if not lst:
                return 'never-issued-%s-%s' % (ref[1], ref[2])
            k = ref[3] if len(ref) > 3 else -1
            try:
                return lst[k]
            except IndexError:
                return lst[-1]
        return ref

    def resolve(self, x):
        """Resolve SIDs inside a target / skip spec."""
        if isinstance(x, list) and x and x[0] == 'sid':
            return self.sid_of(x)
        if isinstance(x, list) and x and x[0] == 'list':
            return [self.resolve(i) for i in x[1:]]
        return x

    def _collect(self, res):
        sent = {}
        for idx, t in self.T.items():
            if t.alive and t.socket.closed:
                # closed by engine.io itself (ping timeout found on send)
                self.d._reap(t)
            new = t.drain()
            if new:
                sent[idx] = new
                for p in new:
                    if p['type'] == R.CONNECT and isinstance(
                            p['data'], dict) and 'sid' in p['data']:
                        sid = p['data']['sid']
                        self.issued.setdefault((idx, p['nsp']),
                                               []).append(sid)
                        self.all_sids.append(sid)
            if t.decode_errors:
                res.setdefault('decode_errors', []).extend(t.decode_errors)
                t.decode_errors = []
        held = res.pop('_call_frames', None)
        if held:
            for idx, pk in held.items():
                sent[idx] = list(pk) + sent.get(idx, [])
        res['sent'] = sent
        res['events'] = self.events[res['_ev0']:]
        del res['_ev0']
        errs = self.d.errors()
        if errs:
            res['errors'] = list(errs)
            self.d.clear_errors()

    # ------------------------------------------------------------ execution
    def step(self, op):
        d = self.d
        res = {'op': op, '_ev0': len(self.events)}
        kind = op[0]
        if kind in ('connect', 'event', 'event_partial', 'ack', 'cdisc',
                    'lose', 'cclose', 'raw', 'raw_encoded') and \
                op[1] in self.T and not self.T[op[1]].alive:
            # engine.io does not deliver anything for a transport that has
            # ended (its socket is gone from the server's table)
            res['skipped'] = 'transport ended'
            self._collect(res)
            return res
        try:
            if kind == 'open':
                self.T[op[1]] = d.open()
            elif kind == 'connect':
                self.T[op[1]].send_packet(R.CONNECT, op[2], None, op[3])
            elif kind == 'event':
                self.T[op[1]].send_packet(R.EVENT, op[2], op[5],
                                          [op[3]] + list(op[4]))
            elif kind == 'event_partial':
                self.T[op[1]].send_packet(R.EVENT, op[2], op[5],
                                          [op[3]] + list(op[4]),
                                          partial=op[6])
            elif kind == 'ack':
                self.T[op[1]].send_packet(R.ACK, op[2], op[3], list(op[4]))
            elif kind == 'cdisc':
                self.T[op[1]].send_packet(R.DISCONNECT, op[2])
            elif kind == 'lose':
                self.T[op[1]].lose()
            elif kind == 'cclose':
                self.T[op[1]].client_close()
            elif kind == 'raw':
                self.T[op[1]].feed(op[2])
            elif kind == 'stale':
                # the client stopped answering pings long ago: engine.io
                # notices at the next send to this transport and closes it
                # with reason "ping timeout" from inside that send
                import time as _time
                self.T[op[1]].socket.last_ping = _time.time() - 10 ** 6
            elif kind == 'burst':
                self._burst(op[1])
            elif kind == 'raw_encoded':
                self.T[op[1]].feed_encoded(op[2])
            elif kind == 'enter':
                res['ret'] = d.api('enter_room', self.sid_of(op[1]),
                                   self.resolve(op[2]), namespace=op[3])
            elif kind == 'leave':
                res['ret'] = d.api('leave_room', self.sid_of(op[1]),
                                   self.resolve(op[2]), namespace=op[3])
            elif kind == 'close_room':
                res['ret'] = d.api('close_room', self.resolve(op[1]),
                                   namespace=op[2])
            elif kind == 'sdisc':
                res['ret'] = d.api('disconnect', self.sid_of(op[1]),
                                   namespace=op[2])
            elif kind == 'emit':
                token, to, skip, ns, cb = op[1:6]
                data = op[6] if len(op) > 6 else {'t': token}
                kw = {}
                if to is not None:
                    kw['to'] = self.resolve(to)
                if skip is not None:
                    kw['skip_sid'] = self.resolve(skip)
                if ns is not None:
                    kw['namespace'] = ns
                if cb:
                    # 'fn' | 'co' | 'raise' | 'raise_co': the last two fail
                    # after having been invoked
                    def callback(*args, _tok=token):
                        self.events.append(('callback', _tok, list(args)))
                        if str(cb).startswith('raise'):
                            raise Injected('injected fault in callback')
                    if d.is_async and cb in ('co', 'raise_co'):
                        async def acallback(*args, _tok=token):
                            callback(*args)
                        kw['callback'] = acallback
                    else:
                        kw['callback'] = callback
                then = op[7] if len(op) > 7 else None
                if then is None:
                    res['ret'] = d.api('emit', 'tok%s' % token, data, **kw)
                else:
                    # the application's next statement follows the emit
                    # without giving up control in between
                    def follow():
                        if then[0] == 'leave':
                            return d.sio.leave_room(then[1], then[2],
                                                    namespace=then[3])
                        if then[0] == 'enter':
                            return d.sio.enter_room(then[1], then[2],
                                                    namespace=then[3])
                        if then[0] == 'close_room':
                            return d.sio.close_room(then[1],
                                                    namespace=then[2])
                        return d.sio.disconnect(then[1], namespace=then[2])
                    if d.is_async:
                        async def both():
                            ret = await d.sio.emit('tok%s' % token, data,
                                                   **kw)
                            f = follow()
                            if asyncio.iscoroutine(f):
                                await f
                            return ret
                        res['ret'] = d.run(both())
                    else:
                        res['ret'] = d.api('emit', 'tok%s' % token, data,
                                           **kw)
                        d.call(follow)
            elif kind == 'rooms':
                res['ret'] = sorted(
                    d.api('rooms', self.sid_of(op[1]), namespace=op[2]),
                    key=repr)
            elif kind == 'get_session':
                res['ret'] = d.api('get_session', self.sid_of(op[1]),
                                   namespace=op[2])
            elif kind == 'heartbeat':
                res['ret'] = self._heartbeat(self.T[op[1]])
            elif kind == 'save_session':
                res['ret'] = d.api('save_session', self.sid_of(op[1]),
                                   op[3], namespace=op[2])
            elif kind == 'session_block':
                res['ret'] = self._session_block(
                    self.sid_of(op[1]), op[2], op[3],
                    op[4] if len(op) > 4 else None)
            elif kind == 'call':
                res.update(self._call(op))
            elif kind == 'session_nested':
                # ['session_nested', SID, ns, updA1, updB, updA2, raises]
                res['ret'] = self._session_nested(
                    self.sid_of(op[1]), op[2], op[3], op[4], op[5], op[6])
            elif kind == 'get_session_mutate':
                # ['get_session_mutate', SID, ns, key, value]: the
                # application modifies the dict get_session() gave it
                sess = d.api('get_session', self.sid_of(op[1]),
                             namespace=op[2])
                sess[op[3]] = op[4]
                res['ret'] = dict(sess)
            elif kind == 'is_connected':
                res['ret'] = self.sio.manager.is_connected(
                    self.sid_of(op[1]), op[2])
            else:
                raise ValueError('unknown op %r' % (op,))
        except Injected as e:
            res['exc'] = 'Injected'
            res['exc_msg'] = str(e)
        except InjectedBase as e:
            res['exc'] = 'InjectedBase'
            res['exc_msg'] = str(e)
        except Exception as e:
            res['exc'] = type(e).__name__
            res['exc_msg'] = str(e)[:200]
            res['exc_tb'] = traceback.format_exc()[-2500:]
        self._collect(res)
        return res

    def _burst(self, items):
        """Feed several frames back to back, without joining background
        work in between."""
        from engineio import packet as eio_packet
        d = self.d
        if d.is_async:
            async def go():
                for T, frame in items:
                    await self.T[T].socket.receive(eio_packet.Packet(
                        eio_packet.MESSAGE, frame))
            d.run(go())
        else:
            old = d.autojoin
            d.autojoin = False
            try:
                for T, frame in items:
                    self.T[T].socket.receive(eio_packet.Packet(
                        eio_packet.MESSAGE, frame))
            finally:
                d.autojoin = old
                d.join()

    def _call(self, op):
        """['call', token, SID|None, ns, data, timeout, script, args, T]:
        server.call() while transport T plays `script`:
        ack | timeout | wrongid_then_ack | cdisc_timeout | lose_timeout |
        ack_after_timeout | ack_other_ns."""
        from engineio import packet as eio_packet
        from .vtime import VirtualEvent, settle
        _, token, to, ns, data, timeout, script, args, T = op
        d = self.d
        t = self.T.get(T)
        kw = {'timeout': timeout}
        if to is not None:
            kw['to'] = self.resolve(to)
        if ns is not None:
            kw['namespace'] = ns
        state = {'id': None}

        def frames(ptype, nsp, pid, pdata):
            if d.serializer == 'msgpack':
                return [R.msgpack_encode(ptype, nsp, pid, pdata)]
            text, atts = R.encode(ptype, nsp, pid, pdata)
            return [text] + atts

        def observe():
            if t is None:
                return
            new = t.drain()
            self._held.extend(new)
            pk = [p for p in new
                  if p['type'] in (R.EVENT, R.BINARY_EVENT)
                  and p['data'] and p['data'][0] == 'tok%s' % token]
            if len(pk) == 1:
                state['id'] = pk[0]['id']
                state['nsp'] = pk[0]['nsp']

        def actions():
            cid, nsp = state['id'], state.get('nsp')
            if cid is None or not t.alive:
                return []
            if script == 'ack':
                return [frames(R.ACK, nsp, cid, args)]
            if script == 'wrongid_then_ack':
                return [frames(R.ACK, nsp, cid + 7, ['wrong']),
                        frames(R.ACK, nsp, cid, args)]
            if script == 'ack_other_ns':
                return [frames(R.ACK, '/zz' if nsp != '/zz' else '/', cid,
                               args)]
            if script == 'cdisc_timeout':
                return [frames(R.DISCONNECT, nsp, None, None),
                        frames(R.ACK, nsp, cid, args)]
            if script == 'lose_timeout':
                return ['lose']
            return []
        self._held = []
        out = {}
        if d.is_async:
            loop = d.loop

            async def feed(a):
                if a == 'lose':
                    await t.socket.close(
                        wait=False, abort=True,
                        reason=d.eio.reason.TRANSPORT_ERROR)
                    d._reap(t)
                    return
                for f in a:
                    await t.socket.receive(eio_packet.Packet(
                        eio_packet.MESSAGE, f))

            async def go():
                task = asyncio.ensure_future(self.sio.call(
                    'tok%s' % token, data, **kw))
                await settle(loop, horizon=0)
                observe()
                for a in actions():
                    await feed(a)
                    await settle(loop, horizon=0)
                if not task.done():
                    await asyncio.sleep(timeout + 0.001)
                    await settle(loop, horizon=0)
                    if not task.done():
                        task.cancel()
                        return {'exc': 'NeverReturned'}
                try:
                    r = {'ret': await task}
                except Injected:
                    raise
                except Exception as e:
                    r = {'exc': type(e).__name__, 'exc_msg': str(e)[:200],
                         'exc_tb': traceback.format_exc()[-2500:]}
                if script == 'ack_after_timeout' and state['id'] is not None \
                        and t.alive:
                    await feed(frames(R.ACK, state['nsp'], state['id'],
                                      args))
                    await settle(loop, horizon=0)
                return r
            import sys as _sys
            orig_wait_for = asyncio.wait_for
            waited = []

            async def wait_for(fut, tmo, **k):
                try:
                    name = _sys._getframe(1).f_code.co_name
                except Exception:
                    name = ''
                if name == 'call':
                    waited.append(tmo)
                return await orig_wait_for(fut, tmo, **k)
            asyncio.wait_for = wait_for
            try:
                out = d.run(go())
            finally:
                asyncio.wait_for = orig_wait_for
            out['waited'] = waited
        else:
            def feed(a):
                if a == 'lose':
                    t.socket.close(wait=False, abort=True,
                                   reason=d.eio.reason.TRANSPORT_ERROR)
                    d._reap(t)
                    return
                for f in a:
                    t.socket.receive(eio_packet.Packet(
                        eio_packet.MESSAGE, f))

            def on_wait(ev, tmo):
                out.setdefault('waits', []).append(tmo)
                observe()
                for a in actions():
                    feed(a)
            orig_create = d.eio.create_event
            d.eio.create_event = lambda *a, **k: VirtualEvent(
                on_wait=on_wait)
            old_join = d.autojoin
            d.autojoin = False
            try:
                try:
                    out['ret'] = self.sio.call('tok%s' % token, data, **kw)
                except Injected:
                    raise
                except Exception as e:
                    out.update({'exc': type(e).__name__,
                                'exc_msg': str(e)[:200],
                                'exc_tb': traceback.format_exc()[-2500:]})
                if script == 'ack_after_timeout' and state['id'] is not None \
                        and t.alive:
                    feed(frames(R.ACK, state['nsp'], state['id'], args))
            finally:
                d.eio.create_event = orig_create
                d.autojoin = old_join
                d.join()
            out['waited'] = out.pop('waits', [])
        # the frames consumed while observing belong to this step's record
        if t is not None and self._held:
            out['_call_frames'] = {T: list(self._held)}
        return out

    def _heartbeat(self, t):
        """One step of engine.io's heartbeat for a transport: the task that
        python-engineio schedules for every connection (Socket._send_ping:
        sleep ping_interval, then queue a PING), with the sleep skipped.
        Returns how many PING packets it queued and what it raised."""
        from engineio import packet as eio_packet
        if not t.alive or t.socket.closed or t.socket.closing:
            return 'transport has ended'
        d = self.d
        eio = d.eio
        q = t.socket.queue
        items = getattr(q, '_queue', None)
        if items is None:
            items = q.queue

        def pings():
            return len([p for p in list(items) if p is not None and
                        p.packet_type == eio_packet.PING])
        before = pings()
        err = None
        # (the instance attribute, if any, is put back afterwards: C18 parks
        # the statistics task of the instrumentation with a sleep of its own)
        had = 'sleep' in eio.__dict__
        prev = eio.__dict__.get('sleep')

        def restore():
            if had:
                eio.sleep = prev
            else:
                eio.__dict__.pop('sleep', None)
        if d.is_async:
            async def nosleep(seconds=0):
                return None
            eio.sleep = nosleep

            async def go():
                await t.socket._send_ping()
            try:
                d.run(go())
            except Exception as e:
                err = type(e).__name__
            finally:
                restore()
        else:
            eio.sleep = lambda seconds=0: None
            try:
                t.socket._send_ping()
            except Exception as e:
                err = type(e).__name__
            finally:
                restore()
        return {'pings_queued': pings() - before, 'raised': err}

    def _session_block(self, sid, ns, updates, then=None):
        """then = [fresh_session, more_updates]: inside the block, after the
        updates, something else (a helper, another handler) saves a fresh
        session for the client; the block then modifies its session
        further.  What the block holds is what is persisted at its exit."""
        d = self.d
        if d.is_async:
            async def blk():
                async with self.sio.session(sid, namespace=ns) as s:
                    before = dict(s)
                    s.update(updates)
                    if then is not None:
                        await self.sio.save_session(sid, dict(then[0]),
                                                    namespace=ns)
                        s.update(then[1])
                    return before
            return d.run(blk())
        with self.sio.session(sid, namespace=ns) as s:
            before = dict(s)
            s.update(updates)
            if then is not None:
                self.sio.save_session(sid, dict(then[0]), namespace=ns)
                s.update(then[1])
            return before

    def _session_nested(self, sid, ns, a1, b, a2, raises):
        """An outer session() block inside which a complete inner block for
        the same client and namespace runs (what two overlapping handlers
        do); optionally the outer block is left through an exception."""
        d = self.d

        class Leave(Exception):
            pass
        if d.is_async:
            async def blk():
                try:
                    async with self.sio.session(sid, namespace=ns) as sa:
                        sa.update(a1)
                        for bi in (b if isinstance(b, list) else
                                   [b] if b is not None else []):
                            async with self.sio.session(
                                    sid, namespace=ns) as sb:
                                sb.update(bi)
                        sa.update(a2)
                        if raises:
                            raise Leave()
                except Leave:
                    pass
            return d.run(blk())
        try:
            with self.sio.session(sid, namespace=ns) as sa:
                sa.update(a1)
                for bi in (b if isinstance(b, list) else
                           [b] if b is not None else []):
                    with self.sio.session(sid, namespace=ns) as sb:
                        sb.update(bi)
                sa.update(a2)
                if raises:
                    raise Leave()
        except Leave:
            pass
        return None

    def run(self, ops):
        out = []
        for op in ops:
            out.append(self.step(op))
        return out

    def close(self):
        # a message-queue manager of the harness: end its listener thread
        # (it would otherwise wait on its inbox for ever)
        stop = getattr(self.sio.manager, 'stop', None)
        if stop is not None and not self.d.is_async:
            try:
                stop()
            except Exception:
                pass
        self.d.close()


# ---------------------------------------------------------------- traces
def normalise(results, runner):
    """Rename sids / eio sids by order of first appearance so that two runs
    can be compared."""
    names = {}

    def nm(s):
        if s not in names:
            names[s] = 'S%d' % (len(names) + 1)
        return names[s]
    known = set(runner.all_sids)
    for r in results:
        for ev in r.get('events', []):
            # sids of refused connections are only ever seen by handlers
            if ev[0] == 'handler' and isinstance(ev[4], str):
                known.add(ev[4])
    eio_names = {t.eio_sid: 'T%d' % idx for idx, t in runner.T.items()}

    def walk(x):
        if isinstance(x, str):
            if x in known:
                return nm(x)
            if x in eio_names:
                return eio_names[x]
            return x
        if isinstance(x, tuple):
            return {'$tuple': [walk(i) for i in x]}
        if isinstance(x, list):
            return [walk(i) for i in x]
        if isinstance(x, dict):
            return {walk(k) if isinstance(k, str) else k: walk(v)
                    for k, v in x.items()}
        if isinstance(x, (bytes, bytearray)):
            return {'$b': bytes(x).hex()}
        if isinstance(x, float):
            return {'$f': repr(x)}
        return x
    out = []
    for r in results:
        e = {'op': walk(r['op'])}
        e['sent'] = {str(k): [[p['type'], p['nsp'], p['id'], walk(p['data'])]
                              for p in v] for k, v in sorted(
                                  r.get('sent', {}).items())}
        evs = []
        for ev in r.get('events', []):
            if ev[0] == 'handler':
                evs.append(['handler', ev[1], ev[2], ev[3], walk(ev[4]),
                            walk(ev[5]), ev[6]])
            elif ev[0] == 'callback':
                evs.append(['callback', ev[1], walk(ev[2])])
            elif ev[0] == 'send':
                evs.append(['send', eio_names.get(ev[1], '?')])
            elif ev[0] == 'observe':
                evs.append(['observe'] + [walk(x) for x in ev[1:]])
        e['events'] = evs
        if 'ret' in r:
            e['ret'] = walk(r['ret'])
        if 'waited' in r:
            e['waited'] = r['waited']
        if 'skipped' in r:
            e['skipped'] = r['skipped']
        if 'exc' in r:
            e['exc'] = r['exc']
        if 'errors' in r:
            e['errors'] = sorted(x['exc'] or '' for x in r['errors'])
        out.append(e)
    return out
