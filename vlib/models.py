"""Small independent reference models (DESIGN 2.3)."""


class RoomsModel:
    """namespace -> sid -> set of rooms (personal room = the sid itself)."""

    def __init__(self):
        self.ns = {}

    def connected(self, sid, ns):
        return ns in self.ns and sid in self.ns[ns]

    def connect(self, sid, ns):
        self.ns.setdefault(ns, {})[sid] = {sid}

    def disconnect(self, sid, ns):
        if self.connected(sid, ns):
            del self.ns[ns][sid]

    def enter(self, sid, ns, room):
        if self.connected(sid, ns):
            self.ns[ns][sid].add(room)

    def leave(self, sid, ns, room):
        if self.connected(sid, ns):
            self.ns[ns][sid].discard(room)

    def close(self, room, ns):
        for rooms in self.ns.get(ns, {}).values():
            rooms.discard(room)

    def rooms(self, sid, ns):
        return set(self.ns.get(ns, {}).get(sid, set()))

    def members(self, ns, room):
        return {s for s, rooms in self.ns.get(ns, {}).items() if room in rooms}

    def recipients(self, ns, to, skip):
        """to: None (broadcast) | room | list of rooms; skip: None | sid |
        list of sids."""
        everyone = set(self.ns.get(ns, {}))
        if to is None:
            rec = set(everyone)
        else:
            rooms = to if isinstance(to, list) else [to]
            rec = set()
            for r in rooms:
                rec |= self.members(ns, r)
        if skip is not None:
            sk = skip if isinstance(skip, list) else [skip]
            rec -= set(sk)
        return rec

    def all_sids(self):
        return {(s, ns) for ns, m in self.ns.items() for s in m}


def cre_error_args(args):
    """ConnectionRefusedError(*args) -> payload, from the documentation:
    message = str(first arg) (default text when none), data = second arg, or
    the tuple of the rest when more than two."""
    if len(args) == 0:
        return {'message': 'Connection rejected by server'}
    out = {'message': str(args[0])}
    if len(args) == 2:
        out['data'] = args[1]
    elif len(args) > 2:
        out['data'] = list(args[1:])
    return out
