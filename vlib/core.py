"""Plumbing shared by every check: environment, verdicts, evidence, known
findings, replays, sharding.

Verdicts (DESIGN 2.6):
  exit 0  held on everything explored (KNOWN-FINDING lines allowed)
  exit 1  + "VIOLATION property=<id> replay=<path>"  : violation not listed
  exit 2  + "INCONCLUSIVE ..." : harness error / watchdog / monitor never reached
"""
import collections
import hashlib
import importlib
import json
import os
import random
import subprocess
import sys
import threading
import time
import traceback

VERIF = os.path.dirname(os.path.dirname(os.path.abspath(__file__)))
REPO = os.environ.get('VERIF_REPO', '/repo')
SRC = os.path.join(REPO, 'src')
if os.environ.get('VERIF_NO_EVIDENCE'):
    # self-validation runs against mutated copies must not touch the
    # committed evidence
    _scratch = os.path.join(REPO if REPO != '/repo' else '/tmp', '_verif_out')
    EVIDENCE_DIR = os.path.join(_scratch, 'evidence')
    REPLAY_DIR = os.path.join(_scratch, 'replays')
else:
    EVIDENCE_DIR = os.path.join(VERIF, 'evidence')
    REPLAY_DIR = os.path.join(VERIF, 'replays')
WORK_DIR = os.path.join(VERIF, '.work')
KNOWN_FILE = os.path.join(VERIF, 'known_findings.json')
GUARD = 'PYTHON_SOCKETIO_VERIF'


def setup_path():
    """Make `import socketio` resolve to the tree under test."""
    if SRC not in sys.path[:1]:
        sys.path.insert(0, SRC)
    os.environ[GUARD] = '1'


# Set when the operating system refused to start a thread: from then on
# whatever the code under test does is an artefact of the machine, not of
# the library - nothing observed afterwards is judged.
EXHAUSTED = []


def _guard_thread_start():
    orig = threading.Thread.start
    if getattr(orig, '_verif_guard', False):
        return

    def start(self):
        try:
            return orig(self)
        except RuntimeError as e:
            if "can't start new thread" in str(e):
                EXHAUSTED.append(time.time())
            raise
    start._verif_guard = True
    threading.Thread.start = start


class Inconclusive(Exception):
    pass


class CheckBug(Exception):
    """Raised for harness-internal inconsistencies (=> inconclusive)."""


def jsonable(x, depth=0):
    """Best-effort conversion of witnesses/samples to JSON."""
    if depth > 12:
        return '<deep>'
    if x is None or isinstance(x, (bool, int, str)):
        if isinstance(x, int) and not isinstance(x, bool) and abs(x) > 2**62:
            return {'$int': str(x)}
        return x
    if isinstance(x, float):
        if x != x or x in (float('inf'), float('-inf')):
            return {'$float': repr(x)}
        return x
    if isinstance(x, (bytes, bytearray)):
        b = bytes(x)
        if len(b) > 64:
            return {'$bytes': b[:32].hex() + '..', 'len': len(b)}
        return {'$bytes': b.hex()}
    if isinstance(x, (list, tuple)):
        r = [jsonable(i, depth + 1) for i in x]
        return {'$tuple': r} if isinstance(x, tuple) else r
    if isinstance(x, (set, frozenset)):
        return {'$set': sorted((jsonable(i, depth + 1) for i in x),
                               key=lambda v: json.dumps(v, sort_keys=True))}
    if isinstance(x, dict):
        return {str(k): jsonable(v, depth + 1) for k, v in x.items()}
    if isinstance(x, BaseException):
        return {'$exc': type(x).__name__, 'msg': str(x)[:300]}
    return {'$repr': repr(x)[:200]}


def digest(obj):
    s = json.dumps(jsonable(obj), sort_keys=True, default=repr)
    return hashlib.sha1(s.encode()).hexdigest()[:12]


def exc_in_repo(exc):
    """True if the traceback of exc has its innermost frame (or any frame
    below the harness) inside the code under test."""
    tb = exc.__traceback__
    frames = traceback.extract_tb(tb)
    if not frames:
        return False
    inner = frames[-1].filename
    return '/socketio/' in inner or '/engineio/' in inner or \
        inner.startswith(SRC)


def load_known():
    try:
        with open(KNOWN_FILE) as f:
            doc = json.load(f)
    except FileNotFoundError:
        return {}
    out = {}
    for e in doc.get('findings', []):
        if e.get('status') == 'known':
            out[(e['property'], e['key'])] = e
    return out


class Ctx:
    """Per-run context handed to a check's run(ctx)."""

    def __init__(self, pid, level, tier, seed, shard=0, nshards=1,
                 budget=None):
        self.pid = pid
        self.level = level
        self.tier = tier
        self.seed = seed
        self.shard = shard
        self.nshards = nshards
        self.rng = random.Random((seed * 1000003 + shard * 7919) & 0xffffffff)
        self.t0 = time.time()
        self.budget = budget
        self.evaluations = 0
        self.signatures = set()
        self.samples = []
        self.max_samples = 6
        self.counters = collections.Counter()
        self.violations = []       # unlisted violations (witness dicts)
        self.known_hits = collections.Counter()
        self.known_examples = {}
        self.notes = {}
        self.rule = ''
        self.assumptions = []
        self.exhaustive = None
        self.extra = {}
        self.required = {}         # counter name -> minimum (else inconclusive)
        self._known = load_known()
        self._lock = threading.Lock()

    def case_rng(self, k):
        """Independent PRNG for case number k of this (seed, shard): a case
        can be regenerated for replay from (seed, shard, k) alone."""
        return random.Random('%d/%d/%d' % (self.seed, self.shard, k))

    # -- exploration accounting -------------------------------------------
    def time_left(self):
        if self.budget is None:
            return 1e9
        return self.budget - (time.time() - self.t0)

    def out_of_time(self):
        return self.time_left() <= 0

    def case(self, signature=None, sample=None, nontrivial=True):
        """Record one explored case. `signature` identifies its *shape*."""
        with self._lock:
            self.evaluations += 1
            if nontrivial and signature is not None:
                sig = signature if isinstance(signature, str) \
                    else digest(signature)
                new = sig not in self.signatures
                self.signatures.add(sig)
            else:
                new = False
            if sample is not None and (
                    len(self.samples) < self.max_samples and
                    (new or len(self.samples) < 2)):
                self.samples.append(jsonable(sample))

    def count(self, name, n=1):
        with self._lock:
            self.counters[name] += n

    def require(self, name, minimum=1):
        self.required[name] = minimum

    # -- verdicts ---------------------------------------------------------
    def violation(self, key, what, witness):
        """Report a violation. `key` is the mechanism key computed by the
        check's classifier from the witness (or None if unclassified)."""
        w = {'property': self.pid, 'mechanism': key, 'what': what,
             'seed': self.seed, 'tier': self.tier, 'shard': self.shard,
             'witness': jsonable(witness)}
        with self._lock:
            if EXHAUSTED:
                self.counters['discarded_after_resource_exhaustion'] += 1
                return True
            if key is not None and (self.pid, key) in self._known:
                self.known_hits[key] += 1
                self.known_examples.setdefault(key, w)
                return False
            if len(self.violations) < 50:
                self.violations.append(w)
            else:
                self.counters['violations_dropped'] += 1
            return True

    def too_many_violations(self):
        return len(self.violations) >= 20


def _write_replay(pid, w):
    os.makedirs(REPLAY_DIR, exist_ok=True)
    path = os.path.join(REPLAY_DIR, '%s-%s.json' % (pid, digest(w)))
    with open(path, 'w') as f:
        json.dump(w, f, indent=1, sort_keys=True, default=repr)
    return path


def _partial(ctx, status, detail=None):
    if EXHAUSTED:
        status = 'inconclusive'
        detail = ('the operating system refused to start a thread '
                  '(resource exhaustion on this machine); nothing observed '
                  'after that was judged')
    return {
        'status': status, 'detail': detail,
        'evaluations': ctx.evaluations,
        'signatures': sorted(ctx.signatures),
        'samples': ctx.samples, 'counters': dict(ctx.counters),
        'violations': ctx.violations,
        'known_hits': dict(ctx.known_hits),
        'known_examples': ctx.known_examples,
        'notes': ctx.notes, 'rule': ctx.rule,
        'assumptions': ctx.assumptions, 'exhaustive': ctx.exhaustive,
        'extra': jsonable(ctx.extra), 'required': ctx.required,
        'wall_s': time.time() - ctx.t0,
    }


def run_one(mod, ctx, watchdog):
    """Run mod.run(ctx) under a watchdog; returns partial dict."""
    result = {}
    _guard_thread_start()

    def target():
        try:
            mod.run(ctx)
            result['status'] = 'ok'
        except Inconclusive as e:
            result['status'] = 'inconclusive'
            result['detail'] = 'Inconclusive: %s' % e
        except BaseException as e:  # noqa
            tb = traceback.format_exc()
            if exc_in_repo(e) and not isinstance(e, CheckBug):
                ctx.violation(None, 'exception from code under test escaped '
                              'to the harness', {'traceback': tb[-4000:]})
                result['status'] = 'ok'
            else:
                result['status'] = 'inconclusive'
                result['detail'] = 'harness error: ' + tb[-3000:]

    if getattr(mod, 'MAIN_THREAD', False):
        # the check needs signals (CPU-time budgets around single inputs):
        # run it in the main thread; the watchdog is an alarm
        import signal

        def on_alarm(signum, frame):
            raise Inconclusive('watchdog (%ss) fired' % watchdog)
        old = signal.signal(signal.SIGALRM, on_alarm)
        signal.alarm(int(watchdog))
        try:
            target()
        finally:
            signal.alarm(0)
            signal.signal(signal.SIGALRM, old)
        return _partial(ctx, result.get('status', 'inconclusive'),
                        result.get('detail'))
    th = threading.Thread(target=target, daemon=True, name='check-main')
    th.start()
    th.join(watchdog)
    if th.is_alive():
        import faulthandler
        faulthandler.dump_traceback(file=sys.stderr)
        return _partial(ctx, 'inconclusive',
                        'watchdog (%ss) fired' % watchdog)
    return _partial(ctx, result.get('status', 'inconclusive'),
                    result.get('detail'))


def merge(parts):
    m = {'status': 'ok', 'detail': None, 'evaluations': 0,
         'signatures': set(), 'samples': [], 'counters': collections.Counter(),
         'violations': [], 'known_hits': collections.Counter(),
         'known_examples': {}, 'notes': {}, 'rule': '', 'assumptions': [],
         'exhaustive': None, 'extra': {}, 'required': {}, 'wall_s': 0.0}
    for p in parts:
        if p['status'] != 'ok' and m['status'] == 'ok':
            m['status'] = p['status']
            m['detail'] = p.get('detail')
        m['evaluations'] += p['evaluations']
        m['signatures'].update(p['signatures'])
        for s in p['samples']:
            if len(m['samples']) < 8:
                m['samples'].append(s)
        m['counters'].update(p['counters'])
        m['violations'].extend(p['violations'])
        m['known_hits'].update(p['known_hits'])
        for k, v in p['known_examples'].items():
            m['known_examples'].setdefault(k, v)
        m['notes'].update(p.get('notes') or {})
        m['rule'] = p['rule'] or m['rule']
        for a in p['assumptions']:
            if a not in m['assumptions']:
                m['assumptions'].append(a)
        if p['exhaustive'] is not None:
            m['exhaustive'] = p['exhaustive'] if m['exhaustive'] is None \
                else (m['exhaustive'] and p['exhaustive'])
        for k, v in (p.get('extra') or {}).items():
            if k not in m['extra']:
                m['extra'][k] = v
            elif isinstance(v, (int, float)) and not isinstance(v, bool) \
                    and isinstance(m['extra'][k], (int, float)):
                m['extra'][k] += v
            elif isinstance(v, list) and isinstance(m['extra'][k], list):
                for i in v:
                    if i not in m['extra'][k] and len(m['extra'][k]) < 400:
                        m['extra'][k].append(i)
        m['required'].update(p.get('required') or {})
        m['wall_s'] = max(m['wall_s'], p['wall_s'])
    return m


def conclude(pid, level, tier, seed, m, wall):
    """Write evidence, print verdict lines, return exit code."""
    os.makedirs(EVIDENCE_DIR, exist_ok=True)
    known = load_known()
    status = m['status']
    detail = m.get('detail')
    # (one or two on a loaded machine are reported in the evidence and
    # tolerated: locks created by the code under test are scheduler-aware,
    # so a deadlock among them is found by the scheduler itself)
    if status == 'ok' and m['counters'].get(
            'schedules_stuck_outside_the_scheduler', 0) > 2:
        status = 'inconclusive'
        detail = ('%d schedule(s) did not finish because an actor blocked or '
                  'span outside the scheduler\'s control: the harness cannot '
                  'judge them' % m['counters'][
                      'schedules_stuck_outside_the_scheduler'])
    # required monitor counters: zero deciding events => inconclusive
    if status == 'ok':
        for name, minimum in m['required'].items():
            if m['counters'].get(name, 0) < minimum:
                status = 'inconclusive'
                detail = 'monitor counter %r = %s < %s: the deciding ' \
                    'monitor was not reached' % (
                        name, m['counters'].get(name, 0), minimum)
                break
    if status == 'ok' and len(m['signatures']) < 2:
        status = 'inconclusive'
        detail = 'fewer than 2 distinct non-trivial cases explored'
    cov = {
        'evaluations': m['evaluations'],
        'distinct_nontrivial': len(m['signatures']),
        'rule': m['rule'],
        'samples': m['samples'][:8] or ['<none>'],
        'monitor_counters': dict(sorted(m['counters'].items())),
        'known_findings_observed': dict(m['known_hits']),
        'verdict': 'violated' if m['violations'] else (
            'held_on_observed' if status == 'ok' else 'inconclusive'),
    }
    if m['exhaustive'] is not None:
        cov['exhaustive'] = bool(m['exhaustive'])
    if detail:
        cov['inconclusive_detail'] = detail[-1500:]
    for k, v in m['extra'].items():
        cov.setdefault(k, v)
    if m['notes']:
        cov['notes'] = m['notes']
    ev = {
        'property_id': pid, 'tier': tier, 'seed': seed, 'level': level,
        'coverage': cov, 'assumptions': m['assumptions'],
        'wall_s': round(wall, 2), 'violations': len(m['violations']),
    }
    with open(os.path.join(EVIDENCE_DIR, pid + '.json'), 'w') as f:
        json.dump(ev, f, indent=1, sort_keys=True, default=repr)
        f.write('\n')
    # one line per listed finding of this property, reached in this run or
    # not (a finding that needs a rare schedule is not met by every seed)
    keys = sorted(set(m['known_hits']) |
                  {k for (p, k) in known if p == pid})
    for key in keys:
        e = known.get((pid, key), {})
        n = m['known_hits'].get(key, 0)
        print('KNOWN-FINDING: property=%s %s: %s (%s)' % (
            pid, key, e.get('description', ''),
            'observed %d times' % n if n else
            'listed; its mechanism was not met in this run'))
    print('%s tier=%s seed=%s: %d evaluations, %d distinct non-trivial, '
          '%d violations, %.1fs' % (pid, tier, seed, m['evaluations'],
                                    len(m['signatures']),
                                    len(m['violations']), wall))
    interesting = {k: v for k, v in sorted(m['counters'].items())}
    print('monitor counters: ' + json.dumps(interesting))
    if m['violations']:
        seen = set()
        for w in m['violations']:
            sig = (w.get('mechanism'), w.get('what'))
            if sig in seen:
                continue
            seen.add(sig)
            path = _write_replay(pid, w)
            print('  what: %s' % w.get('what'))
            print('VIOLATION property=%s replay=%s' % (pid, path))
        return 1
    if status != 'ok':
        print('INCONCLUSIVE property=%s %s' % (pid, detail))
        return 2
    return 0


def reexec_hashseed():
    if os.environ.get('PYTHONHASHSEED') != '0':
        env = dict(os.environ, PYTHONHASHSEED='0')
        os.execve(sys.executable, [sys.executable] + sys.argv, env)


def main(argv=None):
    import argparse
    ap = argparse.ArgumentParser()
    ap.add_argument('pid')
    ap.add_argument('--tier', default=os.environ.get('VERIF_TIER', 'quick'))
    ap.add_argument('--seed', type=int,
                    default=int(os.environ.get('VERIF_SEED', '0') or 0))
    ap.add_argument('--shard', default=None)       # "i/n/outfile"
    ap.add_argument('--replay', default=None)
    ap.add_argument('--shards', type=int, default=None)
    args = ap.parse_args(argv)
    reexec_hashseed()
    setup_path()
    sys.setrecursionlimit(10000)
    pid = args.pid.upper()
    mod = importlib.import_module('checks.' + pid.lower())
    level = mod.LEVEL
    tier = args.tier if args.tier in ('quick', 'thorough') else 'quick'
    cfg = mod.TIERS[tier]
    t0 = time.time()
    if args.replay:
        with open(args.replay) as f:
            w = json.load(f)
        ctx = Ctx(pid, level, w.get('tier', 'quick'), w.get('seed', 0),
                  w.get('shard', 0), 1, budget=cfg.get('budget'))
        if hasattr(mod, 'replay'):
            mod.replay(ctx, w)
        else:
            mod.run(ctx)
        p = _partial(ctx, 'ok')
        return conclude_replay(pid, p)
    if args.shard:
        i, n, out = args.shard.split('/', 2)
        ctx = Ctx(pid, level, tier, args.seed, int(i), int(n),
                  budget=cfg.get('budget'))
        p = run_one(mod, ctx, cfg.get('watchdog', 600))
        with open(out, 'w') as f:
            json.dump(p, f, default=repr)
        sys.stdout.flush()
        os._exit(0)
    nshards = args.shards or cfg.get('shards', 1)
    if nshards <= 1:
        ctx = Ctx(pid, level, tier, args.seed, 0, 1, budget=cfg.get('budget'))
        parts = [run_one(mod, ctx, cfg.get('watchdog', 600))]
    else:
        parts = run_sharded(pid, tier, args.seed, nshards,
                            cfg.get('watchdog', 600))
    m = merge(parts)
    rc = conclude(pid, level, tier, args.seed, m, time.time() - t0)
    sys.stdout.flush()
    os._exit(rc)


def conclude_replay(pid, p):
    if p['violations']:
        for w in p['violations']:
            print('REPLAY: violation reproduced: %s' % w.get('what'))
            print(json.dumps(w.get('witness'), indent=1)[:4000])
        os._exit(1)
    print('REPLAY: no violation (known hits: %s)' % p['known_hits'])
    os._exit(0)


def run_sharded(pid, tier, seed, nshards, watchdog):
    os.makedirs(WORK_DIR, exist_ok=True)
    procs = []
    for i in range(nshards):
        out = os.path.join(WORK_DIR, '%s-%s-%d-%d.json' % (
            pid, tier, os.getpid(), i))
        if os.path.exists(out):
            os.unlink(out)
        cmd = [sys.executable, os.path.join(VERIF, 'vlib', 'run.py'), pid,
               '--tier', tier, '--seed', str(seed),
               '--shard', '%d/%d/%s' % (i, nshards, out)]
        procs.append((i, out, subprocess.Popen(
            cmd, cwd=VERIF, stdout=subprocess.PIPE,
            stderr=subprocess.STDOUT)))
    parts = []
    for i, out, pr in procs:
        try:
            so, _ = pr.communicate(timeout=watchdog + 60)
        except subprocess.TimeoutExpired:
            pr.kill()
            so, _ = pr.communicate()
        try:
            with open(out) as f:
                parts.append(json.load(f))
            os.unlink(out)
        except Exception:
            parts.append({
                'status': 'inconclusive',
                'detail': 'shard %d produced no result: %s' % (
                    i, (so or b'').decode(errors='replace')[-1500:]),
                'evaluations': 0, 'signatures': [], 'samples': [],
                'counters': {}, 'violations': [], 'known_hits': {},
                'known_examples': {}, 'notes': {}, 'rule': '',
                'assumptions': [], 'exhaustive': None, 'extra': {},
                'required': {}, 'wall_s': 0})
    return parts
