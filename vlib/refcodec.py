"""Reference Socket.IO v5 codec, written from the protocol text
(https://socket.io/docs/v4/socket-io-protocol/ "Packet encoding") and the
behaviour of the reference JavaScript parser, using only the stdlib.  It shares
no code with socketio.packet and is the decoder used for everything the
monitors read off the wire.

  <packet type>[<# of binary attachments>-][<namespace>,][<ack id>][JSON payload]
"""
import json

CONNECT, DISCONNECT, EVENT, ACK, CONNECT_ERROR, BINARY_EVENT, BINARY_ACK = \
    range(7)
NAMES = ['CONNECT', 'DISCONNECT', 'EVENT', 'ACK', 'CONNECT_ERROR',
         'BINARY_EVENT', 'BINARY_ACK']


class RefError(ValueError):
    pass


def has_bytes(d):
    if isinstance(d, (bytes, bytearray)):
        return True
    if isinstance(d, (list, tuple)):
        return any(has_bytes(i) for i in d)
    if isinstance(d, dict):
        return any(has_bytes(v) for v in d.values())
    return False


def _extract(d, atts, num_first=False):
    """Depth-first, in document order: replace bytes by numbered
    placeholders."""
    if isinstance(d, (bytes, bytearray)):
        atts.append(bytes(d))
        if num_first:
            return {'num': len(atts) - 1, '_placeholder': True}
        return {'_placeholder': True, 'num': len(atts) - 1}
    if isinstance(d, (list, tuple)):
        return [_extract(i, atts, num_first) for i in d]
    if isinstance(d, dict):
        return {k: _extract(v, atts, num_first) for k, v in d.items()}
    return d


def _inject(d, atts):
    if isinstance(d, list):
        return [_inject(i, atts) for i in d]
    if isinstance(d, dict):
        if d.get('_placeholder') is True and isinstance(d.get('num'), int) \
                and not isinstance(d.get('num'), bool):
            n = d['num']
            if not 0 <= n < len(atts):
                raise RefError('illegal attachment index')
            return atts[n]
        return {k: _inject(v, atts) for k, v in d.items()}
    return d


def promoted_type(ptype, data):
    """EVENT/ACK carrying bytes are sent as their binary twins."""
    if has_bytes(data):
        if ptype == EVENT:
            return BINARY_EVENT
        if ptype == ACK:
            return BINARY_ACK
        if ptype in (BINARY_EVENT, BINARY_ACK):
            return ptype
        raise RefError('bytes only allowed in EVENT and ACK')
    return ptype


def encode_parts(ptype, nsp=None, id=None, data=None, num_first=False):
    """Returns (header, json_text, placeholder_tree, [attachments])."""
    ptype = promoted_type(ptype, data)
    out = str(ptype)
    atts = []
    if ptype in (BINARY_EVENT, BINARY_ACK):
        data = _extract(data, atts, num_first)
        out += str(len(atts)) + '-'
    if nsp is not None and nsp != '/':
        out += nsp + ','
    if id is not None:
        out += str(id)
    js = ''
    if data is not None:
        js = json.dumps(data, separators=(',', ':'), ensure_ascii=False)
    return out, js, data, atts


def encode(ptype, nsp=None, id=None, data=None, num_first=False):
    """Returns (text_frame, [attachments])."""
    h, js, _, atts = encode_parts(ptype, nsp, id, data, num_first)
    return h + js, atts


_DIGITS = '0123456789'


def decode_header(s):
    """Parse a text frame.  Returns dict(type, nsp, id, data, n).  `data`
    still contains placeholders."""
    if not isinstance(s, str) or not s:
        raise RefError('not a text frame')
    if s[0] not in _DIGITS[:7]:
        raise RefError('unknown packet type')
    t = int(s[0])
    i = 1
    n = 0
    if t in (BINARY_EVENT, BINARY_ACK):
        j = i
        while j < len(s) and s[j] in _DIGITS:
            j += 1
        if j == i or j >= len(s) or s[j] != '-':
            raise RefError('illegal attachments')
        n = int(s[i:j])
        i = j + 1
    nsp = '/'
    if i < len(s) and s[i] == '/':
        j = s.find(',', i)
        if j == -1:
            nsp = s[i:]
            i = len(s)
        else:
            nsp = s[i:j]
            i = j + 1
        q = nsp.find('?')
        if q != -1:
            nsp = nsp[:q]
    pid = None
    j = i
    while j < len(s) and s[j] in _DIGITS:
        j += 1
    if j > i:
        pid = int(s[i:j])
        i = j
    data = None
    if i < len(s):
        try:
            data = json.loads(s[i:])
        except ValueError as e:
            raise RefError('invalid payload: %s' % e)
    return {'type': t, 'nsp': nsp, 'id': pid, 'data': data, 'n': n}


def decode(frame, atts=()):
    h = decode_header(frame)
    if h['n'] != len(atts):
        raise RefError('expected %d attachments, got %d' % (h['n'],
                                                             len(atts)))
    if h['n'] or h['type'] in (BINARY_EVENT, BINARY_ACK):
        h['data'] = _inject(h['data'], list(atts))
    return h


def json_is_compact(text):
    """True if the JSON text has no insignificant whitespace."""
    in_str = False
    esc = False
    for ch in text:
        if in_str:
            if esc:
                esc = False
            elif ch == '\\':
                esc = True
            elif ch == '"':
                in_str = False
        else:
            if ch == '"':
                in_str = True
            elif ch in ' \t\r\n':
                return False
    return True


def split_header(frame):
    """Split a text frame into (header, json_text) using the reference
    grammar, without parsing JSON."""
    s = frame
    i = 1
    t = int(s[0])
    if t in (BINARY_EVENT, BINARY_ACK):
        j = s.find('-', i)
        i = j + 1
    if i < len(s) and s[i] == '/':
        j = s.find(',', i)
        i = len(s) if j == -1 else j + 1
    while i < len(s) and s[i] in _DIGITS:
        i += 1
    return s[:i], s[i:]


# ---------------------------------------------------------------- equality
def deep_eq(a, b):
    """Structural equality that distinguishes bool/int/float/str/bytes and
    list/dict; tuples are treated as lists (JSON has only arrays)."""
    if isinstance(a, tuple):
        a = list(a)
    if isinstance(b, tuple):
        b = list(b)
    if isinstance(a, bytearray):
        a = bytes(a)
    if isinstance(b, bytearray):
        b = bytes(b)
    if type(a) is not type(b):
        return False
    if isinstance(a, list):
        return len(a) == len(b) and all(deep_eq(x, y) for x, y in zip(a, b))
    if isinstance(a, dict):
        if a.keys() != b.keys():
            return False
        return all(deep_eq(a[k], b[k]) for k in a)
    if isinstance(a, float):
        return repr(a) == repr(b)
    return a == b


# ---------------------------------------------------------------- msgpack
def msgpack_encode(ptype, nsp=None, id=None, data=None):
    import msgpack
    d = {'type': ptype, 'data': data, 'nsp': nsp if nsp is not None else '/'}
    if id is not None:
        d['id'] = id
    return msgpack.packb(d, use_bin_type=True)


def msgpack_decode(frame):
    import msgpack
    d = msgpack.unpackb(frame, raw=False)
    if not isinstance(d, dict) or 'type' not in d:
        raise RefError('not a msgpack socket.io packet')
    return {'type': d['type'], 'nsp': d.get('nsp') or '/', 'id': d.get('id'),
            'data': d.get('data'), 'n': 0}


class Assembler:
    """Per-peer reassembly of the frames written to one transport, in order.
    feed(frame) returns a decoded packet dict when one is complete."""

    def __init__(self, serializer='default'):
        self.serializer = serializer
        self.pending = None
        self.atts = []
        self.errors = []

    def feed(self, frame):
        if self.serializer == 'msgpack':
            return msgpack_decode(frame)
        if isinstance(frame, (bytes, bytearray)):
            if self.pending is None:
                self.errors.append('stray binary frame')
                raise RefError('stray binary frame')
            self.atts.append(bytes(frame))
            if len(self.atts) == self.pending['n']:
                h = self.pending
                h['data'] = _inject(h['data'], self.atts)
                self.pending, self.atts = None, []
                return h
            return None
        if self.pending is not None:
            raise RefError('text frame while %d attachments are owed' % (
                self.pending['n'] - len(self.atts)))
        h = decode_header(frame)
        if h['type'] in (BINARY_EVENT, BINARY_ACK) and h['n'] > 0:
            self.pending = h
            return None
        return h
