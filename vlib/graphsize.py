"""Leak monitor: objects reachable from a root via gc.get_referents,
excluding types, modules, functions, loggers and harness objects."""
import collections
import gc
import logging
import threading
import types

SKIP_TYPES = (type, types.ModuleType, types.FunctionType,
              types.BuiltinFunctionType, logging.Logger, logging.Handler,
              types.CodeType, types.FrameType, types.GetSetDescriptorType,
              types.MemberDescriptorType, types.WrapperDescriptorType,
              types.MethodDescriptorType)


def module_state(prefix='socketio'):
    """Module-level mutable containers of the package (registries such as
    the set that keeps references to background tasks): state the servers of
    the process share, reachable from every server through its methods."""
    import sys
    out = []
    for name, mod in sorted(sys.modules.items()):
        if mod is None or not (name == prefix or
                               name.startswith(prefix + '.')):
            continue
        for attr, v in sorted(vars(mod).items()):
            if attr.startswith('__'):
                continue
            if isinstance(v, (dict, list, set, collections.deque)):
                out.append(v)
    return out


def measure(root, extra_skip=(), with_module_state=False):
    """Returns (count, Counter by type name)."""
    seen = {id(root)}
    stack = [root]
    if with_module_state:
        for v in module_state():
            if id(v) not in seen:
                seen.add(id(v))
                stack.append(v)
    by_type = collections.Counter()
    skip_ids = {id(x) for x in extra_skip}
    while stack:
        o = stack.pop()
        by_type[type(o).__name__] += 1
        if isinstance(o, threading.Condition):
            # the lock a thread parks on while it waits on the condition
            # (the listener thread on its inbox) is run-time state of that
            # thread, present or not depending on where the thread happens
            # to be: not counted
            w = getattr(o, '_waiters', None)
            if w is not None:
                seen.add(id(w))
        try:
            refs = gc.get_referents(o)
        except Exception:
            continue
        for r in refs:
            if id(r) in seen or id(r) in skip_ids:
                continue
            if isinstance(r, SKIP_TYPES):
                continue
            if r is None or isinstance(r, (bool, int, float)):
                # immutable scalars are shared singletons/cached objects:
                # counting them by identity would make the size depend on
                # coincidences between unrelated values
                continue
            seen.add(id(r))
            stack.append(r)
    return sum(by_type.values()), by_type


def diff(a, b):
    """Counter difference b - a (only non-zero entries)."""
    out = {}
    for k in set(a) | set(b):
        d = b.get(k, 0) - a.get(k, 0)
        if d:
            out[k] = d
    return out
