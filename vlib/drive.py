"""Direct-drive server harness (DESIGN 2.1-1).

A real socketio.Server / AsyncServer with its real engineio server; transports
are real engineio Socket / AsyncSocket objects created below the HTTP layer.
Everything the server sends is read from the socket queues and decoded with
the reference codec.
"""
import asyncio
import logging
import threading
import traceback

from engineio import packet as eio_packet
from engineio import payload as eio_payload

from . import refcodec as R
from .vtime import VirtualLoop, settle


class Delay:
    """A handler may return Delay(value, delay, done) to ask its wrapper to
    pause (virtual seconds on the asyncio drive, milliseconds of real sleep on
    the threaded drive) before completing with `value`."""

    def __init__(self, value, delay, done=None):
        self.value = value
        self.delay = delay
        self.done = done


class Do:
    """A handler may return Do(value, actions): the wrapper calls every
    action (a function; what it returns is awaited on the asyncio drive when
    it is awaitable) before completing with `value` - e.g. emits issued from
    inside the handler."""

    def __init__(self, value, actions):
        self.value = value
        self.actions = actions


def wrap_handler(fn, is_async, coroutine):
    """Wrap a plain function as the kind of handler to register."""
    if is_async and coroutine:
        async def h(*a):
            r = fn(*a)
            if isinstance(r, Do):
                for act in r.actions:
                    x = act()
                    if asyncio.iscoroutine(x):
                        await x
                return r.value
            if isinstance(r, Delay):
                if r.delay:
                    await asyncio.sleep(r.delay)
                if r.done:
                    r.done()
                return r.value
            return r
    else:
        def h(*a):
            r = fn(*a)
            if isinstance(r, Do):
                for act in r.actions:
                    x = act()
                    if asyncio.iscoroutine(x):
                        x.close()     # (a plain function cannot await it)
                return r.value
            if isinstance(r, Delay):
                if r.delay and not is_async:
                    import time
                    time.sleep(r.delay * 0.001)
                if r.done:
                    r.done()
                return r.value
            return r
    h.__name__ = getattr(fn, '__name__', 'h')
    return h


class ErrorLog(logging.Handler):
    def __init__(self):
        super().__init__(level=logging.WARNING)
        self.records = []

    def emit(self, record):
        tb = None
        etype = None
        if record.exc_info and record.exc_info[0] is not None:
            etype = record.exc_info[0].__name__
            tb = ''.join(traceback.format_exception(*record.exc_info))[-3000:]
        try:
            msg = record.getMessage()
        except Exception:
            msg = str(record.msg)
        self.records.append({'level': record.levelname, 'msg': msg[:300],
                             'exc': etype, 'tb': tb,
                             'logger': record.name})

    def exceptions(self):
        return [r for r in self.records if r['exc']]


def make_logger(name, errlog):
    lg = logging.Logger(name, level=logging.WARNING)
    lg.addHandler(errlog)
    lg.propagate = False
    return lg


class Transport:
    def __init__(self, drive, eio_sid, socket, label):
        self.drive = drive
        self.eio_sid = eio_sid
        self.socket = socket
        self.label = label
        self.alive = True
        self.raw = []
        self.packets = []
        self.asm = R.Assembler(drive.serializer)
        self.decode_errors = []
        self.sids = {}          # namespace -> sid (as told by CONNECT replies)

    def __repr__(self):
        return '<T%s>' % self.label

    # --- what the client receives ---------------------------------------
    def drain(self):
        """Pull everything queued for this transport; returns new decoded
        socket.io packets."""
        new = []
        q = self.socket.queue
        while True:
            try:
                pkt = q.get_nowait()
            except Exception:
                break
            try:
                q.task_done()
            except ValueError:
                pass
            if pkt is None:
                continue
            if pkt.packet_type != eio_packet.MESSAGE:
                continue
            self.raw.append(pkt.data)
            # what the transports of python-engineio do with a queued packet
            # before it leaves the process: long-polling puts it into a
            # payload that is encoded as UTF-8, websocket sends the encoded
            # packet as a text (UTF-8) or binary frame.  A packet that cannot
            # be serialised that way never reaches the client (and takes the
            # rest of its payload with it).
            try:
                enc = pkt.encode()
                if isinstance(enc, str):
                    enc.encode('utf-8')
                    eio_payload.Payload(packets=[pkt]).encode().encode(
                        'utf-8')
            except Exception as e:
                self.decode_errors.append((
                    repr(pkt.data)[:200], 'the transport cannot serialise '
                    'this packet: %r' % e))
                continue
            try:
                d = self.asm.feed(pkt.data)
            except Exception as e:
                self.decode_errors.append((repr(pkt.data)[:200], repr(e)))
                continue
            if d is not None:
                self.packets.append(d)
                new.append(d)
                if d['type'] == R.CONNECT and isinstance(d['data'], dict) \
                        and 'sid' in d['data']:
                    self.sids[d['nsp']] = d['data']['sid']
        return new

    # --- what the client sends ------------------------------------------
    def feed(self, data):
        """One engine.io MESSAGE carrying `data` (str or bytes)."""
        return self.drive._receive(self, eio_packet.Packet(
            eio_packet.MESSAGE, data))

    def feed_encoded(self, encoded):
        """One engine.io packet given in its wire encoding ('4...' or
        bytes), through engine.io's own decoder."""
        return self.drive._receive(
            self, eio_packet.Packet(encoded_packet=encoded))

    def send_packet(self, ptype, nsp=None, id=None, data=None,
                    partial=None):
        """Encode with the reference codec and feed all frames (or only the
        first `partial` frames)."""
        if self.drive.serializer == 'msgpack':
            frames = [R.msgpack_encode(ptype, nsp, id, data)]
        else:
            text, atts = R.encode(ptype, nsp, id, data)
            frames = [text] + atts
        if partial is not None:
            frames = frames[:partial]
        for f in frames:
            self.feed(f)
        return frames

    def connect(self, nsp='/', auth=None):
        self.send_packet(R.CONNECT, nsp, None, auth)
        return self.drain()

    def lose(self, reason=None):
        """Transport loss."""
        self.drive._close(self, reason)

    def client_close(self):
        """engine.io CLOSE packet from the client."""
        self.drive._receive(self, eio_packet.Packet(eio_packet.CLOSE))
        self.drive._reap(self)


class _BaseDrive:
    is_async = False

    def __init__(self, serializer='default', **kw):
        self.serializer = serializer
        self.errlog = ErrorLog()
        self.transports = []
        self.bg_errors = []
        self._n = 0
        self.environs = {}

    def errors(self):
        return self.errlog.exceptions() + self.bg_errors

    def clear_errors(self):
        self.errlog.records.clear()
        self.bg_errors.clear()

    def drain_all(self):
        out = {}
        for t in self.transports:
            new = t.drain()
            if new:
                out[t] = new
        return out

    def live(self):
        return [t for t in self.transports if t.alive]


class SyncDrive(_BaseDrive):
    def __init__(self, serializer='default', autojoin=True, server_kw=None,
                 **kw):
        super().__init__(serializer)
        import socketio
        opts = dict(async_mode='threading', monitor_clients=False,
                    serializer=serializer,
                    logger=make_logger('sio', self.errlog),
                    engineio_logger=make_logger('eio', self.errlog))
        opts.update(kw)
        opts.update(server_kw or {})
        self.sio = socketio.Server(**opts)
        self.eio = self.sio.eio
        self.autojoin = autojoin
        self.threads = []
        eio = self.eio

        def start_background_task(target, *args, **kwargs):
            def runner():
                try:
                    target(*args, **kwargs)
                except BaseException as e:  # noqa
                    self.bg_errors.append({
                        'level': 'THREAD', 'msg': 'background task raised',
                        'exc': type(e).__name__,
                        'tb': traceback.format_exc()[-3000:],
                        'logger': 'thread'})
            th = threading.Thread(target=runner, daemon=True)
            if getattr(target, '__name__', '') not in (
                    '_thread', '_emit_server_stats'):
                # the pub/sub listener is a service thread: never joined
                self.threads.append(th)
            if self.held_tasks is not None:
                # schedule choice: the new thread gets its first time slice
                # only after the thread that started it has done more work
                self.held_tasks.append(th)
                return th
            th.start()
            return th
        self.held_tasks = None
        eio.start_background_task = start_background_task

    def hold_tasks(self):
        self.held_tasks = []

    def release_tasks(self):
        held, self.held_tasks = self.held_tasks or [], None
        for th in held:
            th.start()
            # (a join() issued while they were held has dropped them from
            # the list: the next join() must wait for them)
            if th not in self.threads and getattr(
                    getattr(th, '_target', None), '__name__', '') not in (
                        '_thread', '_emit_server_stats'):
                self.threads.append(th)

    def call(self, fn, *a, **kw):
        r = fn(*a, **kw)
        if self.autojoin:
            self.join()
        return r

    def api(self, name, *a, **kw):
        return self.call(getattr(self.sio, name), *a, **kw)

    def mgr(self, name, *a, **kw):
        return self.call(getattr(self.sio.manager, name), *a, **kw)

    def join(self, timeout=20):
        while self.threads:
            th = self.threads.pop()
            if th is threading.current_thread():
                continue
            if th.ident is None:
                # held back (not started yet)
                continue
            th.join(timeout)
            if th.is_alive():
                self.bg_errors.append({'level': 'THREAD', 'exc': 'Hang',
                                       'msg': 'background thread did not '
                                       'finish', 'tb': None,
                                       'logger': 'thread'})

    def on(self, event, fn, namespace=None, coroutine=None):
        self.sio.on(event, wrap_handler(fn, False, False),
                    namespace=namespace)

    def open(self, environ=None):
        from engineio import socket as eio_socket
        self._n += 1
        eio_sid = self.eio.generate_id()
        s = eio_socket.Socket(self.eio, eio_sid)
        # close(wait=True) waits until the transport's writer has taken
        # everything that is queued; the harness is that writer and reads the
        # queue later, from the same thread
        s.queue.join = lambda: None
        self.eio.sockets[eio_sid] = s
        t = Transport(self, eio_sid, s, self._n)
        self.transports.append(t)
        env = environ if environ is not None else {'verif.transport': self._n}
        self.environs[eio_sid] = env
        ret = self.eio._trigger_event('connect', eio_sid, env,
                                      run_async=False)
        if ret is not None and ret is not True:
            del self.eio.sockets[eio_sid]
            t.alive = False
        s.connected = True
        return t

    def _receive(self, t, pkt):
        r = t.socket.receive(pkt)
        if self.autojoin:
            self.join()
        return r

    def _close(self, t, reason=None):
        t.socket.close(wait=False, abort=True,
                       reason=reason or self.eio.reason.TRANSPORT_ERROR)
        if self.autojoin:
            self.join()
        self._reap(t)

    def _reap(self, t):
        # what engineio.Server.handle_request does with a closed socket
        if t.eio_sid in self.eio.sockets and \
                self.eio.sockets[t.eio_sid].closed:
            del self.eio.sockets[t.eio_sid]
        if t.socket.closed:
            t.alive = False

    def close(self):
        pass


class AsyncDrive(_BaseDrive):
    is_async = True

    def __init__(self, serializer='default', server_kw=None, loop=None,
                 **kw):
        super().__init__(serializer)
        import socketio
        self.own_loop = loop is None
        self.loop = loop or VirtualLoop()
        if self.own_loop:
            self.loop.set_exception_handler(self._loop_exc)
        else:
            prev = self.loop.get_exception_handler()

            def chained(lp, context, _prev=prev):
                self._loop_exc(lp, context)
                if _prev:
                    _prev(lp, context)
            self.loop.set_exception_handler(chained)
        opts = dict(async_mode='asgi', monitor_clients=False,
                    serializer=serializer,
                    logger=make_logger('sio', self.errlog),
                    engineio_logger=make_logger('eio', self.errlog))
        opts.update(kw)
        opts.update(server_kw or {})
        asyncio.set_event_loop(self.loop)
        self.sio = socketio.AsyncServer(**opts)
        self.eio = self.sio.eio

    def _loop_exc(self, loop, context):
        e = context.get('exception')
        self.bg_errors.append({
            'level': 'LOOP', 'msg': str(context.get('message'))[:300],
            'exc': type(e).__name__ if e else 'loop-error',
            'tb': ''.join(traceback.format_exception(
                type(e), e, e.__traceback__))[-3000:] if e else None,
            'logger': 'asyncio'})

    def run(self, coro):
        async def w():
            try:
                return await coro
            finally:
                await settle(self.loop)
        asyncio.set_event_loop(self.loop)
        return self.loop.run_until_complete(w())

    def call(self, fn, *a, **kw):
        r = fn(*a, **kw)
        if asyncio.iscoroutine(r):
            return self.run(r)
        return r

    def api(self, name, *a, **kw):
        return self.call(getattr(self.sio, name), *a, **kw)

    def mgr(self, name, *a, **kw):
        return self.call(getattr(self.sio.manager, name), *a, **kw)

    def join(self, timeout=None):
        async def nop():
            pass
        self.run(nop())

    def on(self, event, fn, namespace=None, coroutine=True):
        self.sio.on(event, wrap_handler(fn, True, coroutine),
                    namespace=namespace)

    def open(self, environ=None):
        from engineio import async_socket
        self._n += 1
        eio_sid = self.eio.generate_id()
        asyncio.set_event_loop(self.loop)

        async def mk():
            return async_socket.AsyncSocket(self.eio, eio_sid)
        s = self.loop.run_until_complete(mk())

        async def no_wait():
            return None
        s.queue.join = no_wait
        self.eio.sockets[eio_sid] = s
        t = Transport(self, eio_sid, s, self._n)
        self.transports.append(t)
        env = environ if environ is not None else {'verif.transport': self._n}
        self.environs[eio_sid] = env
        ret = self.run(self.eio._trigger_event('connect', eio_sid, env,
                                               run_async=False))
        if ret is not None and ret is not True:
            del self.eio.sockets[eio_sid]
            t.alive = False
        s.connected = True
        return t

    def _receive(self, t, pkt):
        return self.run(t.socket.receive(pkt))

    def _close(self, t, reason=None):
        self.run(t.socket.close(
            wait=False, abort=True,
            reason=reason or self.eio.reason.TRANSPORT_ERROR))
        self._reap(t)

    def _reap(self, t):
        if t.eio_sid in self.eio.sockets and \
                self.eio.sockets[t.eio_sid].closed:
            del self.eio.sockets[t.eio_sid]
        if t.socket.closed:
            t.alive = False

    def close(self):
        if not self.own_loop:
            return
        try:
            # cancel whatever is left
            for task in asyncio.all_tasks(self.loop):
                task.cancel()
            self.loop.run_until_complete(asyncio.sleep(0))
        except Exception:
            pass
        self.loop.close()


def make_drive(kind, **kw):
    return AsyncDrive(**kw) if kind == 'async' else SyncDrive(**kw)
