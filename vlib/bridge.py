"""Bridge: a real Client/AsyncClient (scripted engine.io transport) connected
to a real Server/AsyncServer (direct-drive transport), every frame passing
through the real engine.io framing in both directions:

  'polling'   - engineio.payload.Payload encode/decode (binary as base64 'b')
  'websocket' - engineio.packet.Packet.encode()/decode (binary raw)
"""
import asyncio

from engineio import packet as eio_packet
from engineio import payload as eio_payload

from . import drive as D
from . import eioclient as E
from .vtime import settle


def reframe(pkt, framing):
    """One engine.io packet through the wire encoding of a transport."""
    if framing == 'polling':
        enc = eio_payload.Payload(packets=[pkt]).encode()
        return eio_payload.Payload(encoded_payload=enc).packets
    enc = pkt.encode()
    return [eio_packet.Packet(encoded_packet=enc)]


class SyncBridge:
    is_async = False

    def __init__(self, serializer='default', framing='polling',
                 server_kw=None, client_kw=None):
        self.framing = framing
        self.d = D.SyncDrive(serializer=serializer, **(server_kw or {}))
        ckw = {'reconnection': False}
        ckw.update(client_kw or {})
        self.h = E.SyncClientHarness(serializer=serializer, client_kw=ckw)
        self.t = None
        self.frames_c2s = 0
        self.frames_s2c = 0
        self.binary_frames = 0
        h = self.h
        h.raw_hook = self.c2s
        h.connect_hook = self.on_connect
        h.idle_hook = self.idle

    def on_connect(self):
        self.t = self.d.open()

    def c2s(self, pkt):
        if self.t is None or not self.t.alive:
            return
        for p in reframe(pkt, self.framing):
            self.frames_c2s += 1
            if p.binary:
                self.binary_frames += 1
            if p.packet_type == eio_packet.CLOSE:
                self.d._receive(self.t, p)
                self.d._reap(self.t)
            else:
                self.d._receive(self.t, p)

    def s2c(self, limit=None):
        """Move everything the server queued to the client.  Returns the
        number of frames moved.  With a limit: that many frames arrive, the
        rest of what is queued is lost with the connection."""
        n = 0
        if self.t is None:
            return 0
        q = self.t.socket.queue
        while True:
            try:
                pkt = q.get_nowait()
            except Exception:
                break
            try:
                q.task_done()
            except ValueError:
                pass
            if pkt is None:
                continue
            for p in reframe(pkt, self.framing):
                if limit is not None and n >= limit:
                    continue
                n += 1
                self.frames_s2c += 1
                if p.binary:
                    self.binary_frames += 1
                if self.h.eio.state == 'connected':
                    self.h.eio._receive_packet(p)
        return n

    def partial_loss(self, send, keep):
        """The server sends (send()), `keep` frames of it reach the client,
        then the connection is lost on both sides."""
        send()
        self.s2c(limit=keep)
        self.h.pump()
        t, self.t = self.t, None
        self.h.lose()
        t.lose()
        self.d.join()

    def idle(self, ev, timeout):
        return self.s2c() > 0

    def pump(self):
        for _ in range(10000):
            self.h.pump()
            self.d.join()
            if not self.s2c():
                self.h.pump()
                self.d.join()
                if not self.s2c():
                    return

    # API --------------------------------------------------------------
    def client(self, name, *a, **kw):
        try:
            return getattr(self.h.c, name)(*a, **kw)
        finally:
            self.pump()

    def server(self, name, *a, **kw):
        try:
            return getattr(self.d.sio, name)(*a, **kw)
        finally:
            self.pump()

    def on_client(self, event, fn, namespace=None, coroutine=None):
        self.h.on(event, fn, namespace)

    def on_server(self, event, fn, namespace=None, coroutine=None):
        self.d.on(event, fn, namespace)

    def errors(self):
        return self.h.all_errors() + self.d.errors()

    def close(self):
        self.h.close()
        self.d.close()


class AsyncBridge:
    is_async = True

    def __init__(self, serializer='default', framing='polling',
                 server_kw=None, client_kw=None):
        self.framing = framing
        ckw = {'reconnection': False}
        ckw.update(client_kw or {})
        self.h = E.AsyncClientHarness(serializer=serializer, client_kw=ckw)
        self.loop = self.h.loop
        self.d = D.AsyncDrive(serializer=serializer, loop=self.loop,
                              **(server_kw or {}))
        self.t = None
        self.frames_c2s = 0
        self.frames_s2c = 0
        self.binary_frames = 0
        self.h.raw_hook = self.c2s
        self.h.connect_hook = self.on_connect
        self._shuttle = None
        self.limit = None

    async def on_connect(self):
        from engineio import async_socket
        d = self.d
        d._n += 1
        eio_sid = d.eio.generate_id()
        s = async_socket.AsyncSocket(d.eio, eio_sid)

        async def no_wait():
            return None
        s.queue.join = no_wait
        d.eio.sockets[eio_sid] = s
        t = D.Transport(d, eio_sid, s, d._n)
        d.transports.append(t)
        env = {'verif.transport': d._n}
        d.environs[eio_sid] = env
        await d.eio._trigger_event('connect', eio_sid, env, run_async=False)
        s.connected = True
        self.t = t
        if self._shuttle:
            self._shuttle.cancel()
        self._shuttle = self.loop.create_task(self.shuttle())

    async def c2s(self, pkt):
        if self.t is None or not self.t.alive:
            return
        for p in reframe(pkt, self.framing):
            self.frames_c2s += 1
            if p.binary:
                self.binary_frames += 1
            await self.t.socket.receive(p)
            if p.packet_type == eio_packet.CLOSE:
                self.d._reap(self.t)

    async def shuttle(self):
        """server -> client, forever (what the read loop does)."""
        q = self.t.socket.queue
        while True:
            pkt = await q.get()
            try:
                q.task_done()
            except ValueError:
                pass
            if pkt is None:
                continue
            for p in reframe(pkt, self.framing):
                if self.limit is not None:
                    if self.limit <= 0:
                        continue
                    self.limit -= 1
                self.frames_s2c += 1
                if p.binary:
                    self.binary_frames += 1
                if self.h.eio.state == 'connected':
                    await self.h.eio._receive_packet(p)

    def partial_loss(self, send, keep):
        """The server sends (await send()), `keep` frames of it reach the
        client, then the connection is lost on both sides."""
        async def go():
            self.limit = keep
            await send()
            await settle(self.loop, horizon=0)
            t, self.t = self.t, None
            self._shuttle.cancel()
            self._shuttle = None
            self.limit = None
            await self.h.a_lose()
            await t.socket.close(
                wait=False, abort=True,
                reason=self.d.eio.reason.TRANSPORT_ERROR)
            self.d._reap(t)
        self.run(go())

    def run(self, coro, horizon=5.0):
        async def w():
            try:
                return await coro
            finally:
                await settle(self.loop, horizon=horizon)
        asyncio.set_event_loop(self.loop)
        return self.loop.run_until_complete(w())

    def pump(self):
        async def nop():
            pass
        self.run(nop())

    def client(self, name, *a, **kw):
        r = getattr(self.h.c, name)(*a, **kw)
        if asyncio.iscoroutine(r):
            return self.run(r)
        return r

    def server(self, name, *a, **kw):
        r = getattr(self.d.sio, name)(*a, **kw)
        if asyncio.iscoroutine(r):
            return self.run(r)
        return r

    def on_client(self, event, fn, namespace=None, coroutine=True):
        self.h.on(event, fn, namespace, coroutine)

    def on_server(self, event, fn, namespace=None, coroutine=True):
        self.d.on(event, fn, namespace, coroutine)

    def errors(self):
        return self.h.all_errors() + self.d.errors()

    def close(self):
        try:
            if self._shuttle:
                self._shuttle.cancel()
        except Exception:
            pass
        self.h.close()


def make_bridge(kind, **kw):
    return AsyncBridge(**kw) if kind == 'async' else SyncBridge(**kw)
