"""In-memory pub/sub backend (DESIGN 2.1-4): subclasses of the real
PubSubManager / AsyncPubSubManager implementing only _publish (pickle, fan-out
to every subscriber including the publisher, like Redis) and _listen (a
generator over a per-host inbox).  The real _thread listener loop runs in its
real background thread / task; the harness releases one message at a time and
waits until the listener comes back for the next one.
"""
import asyncio
import pickle
import queue
import threading


import collections
import enum


class Colour(enum.IntEnum):
    """Payload values that pickle by reference to a class (what applications
    put into their events: enums, ordered dicts, str subclasses)."""
    RED = 1
    GREEN = 2


class Tag(str):
    pass


def rich_payload(tok):
    return {'t': tok, 'colour': Colour.GREEN,
            'fields': collections.OrderedDict([('b', 1), ('a', 2)]),
            'tag': Tag('x%d' % tok)}


class Channel:
    def __init__(self):
        self.log = []            # every message ever published (bytes)
        self.hosts = []
        self.lock = threading.Lock()
        self.publish_hook = None

    def publish(self, raw, publisher=None):
        with self.lock:
            self.log.append(raw)
            idx = len(self.log) - 1
        for h in self.hosts:
            h.pending.append(idx)
        if self.publish_hook:
            self.publish_hook(idx, raw, publisher)
        return idx


def make_sync_manager(channel, write_only=False, logger=None,
                      listen_faults=None):
    from socketio import pubsub_manager

    class MemPubSub(pubsub_manager.PubSubManager):
        name = 'mem'

        def __init__(self):
            super().__init__(channel='verif', write_only=write_only,
                             logger=logger)
            self.chan = channel
            self.pending = []            # indices not yet released to us
            self.inbox = queue.Queue()
            self.idle = threading.Event()
            self.cv = threading.Condition()
            self._busy = False
            self.done_count = 0
            self.consumed = []
            self.listen_calls = 0
            self.listen_faults = listen_faults if listen_faults is not None \
                else set()
            if not write_only:
                channel.hosts.append(self)

        def _publish(self, data):
            if getattr(self, 'fail_next_publish', False):
                self.fail_next_publish = False
                raise ConnectionError('injected publish failure')
            self.chan.publish(pickle.dumps(data), self)

        def _listen(self):
            if getattr(self, '_stopped', False):
                # the real _thread loop restarts _listen() for ever; after
                # stop() the service thread is ended instead of leaked
                raise SystemExit
            self.listen_calls += 1
            if getattr(self, 'fail_first_listens', 0) > 0:
                # the backend is unreachable when the listener starts: the
                # iterator fails before it has delivered anything
                self.fail_first_listens -= 1
                raise ConnectionError('injected: backend unreachable')
            while True:
                # coming back here means the message handed out before (if
                # any) has been processed completely
                with self.cv:
                    if self._busy:
                        self._busy = False
                        self.done_count += 1
                    self.cv.notify_all()
                self.idle.set()
                item = self.inbox.get()
                if item is StopIteration:
                    self._stopped = True
                    return
                idx, raw = item
                with self.cv:
                    self._busy = True
                if idx in self.listen_faults:
                    self.listen_faults.discard(idx)
                    # the backend's iterator fails; the message itself is
                    # redelivered after the restart, as a broker would
                    with self.cv:
                        self._busy = False
                    self.inbox.put((idx, raw))
                    raise ConnectionError('injected listen failure')
                self.consumed.append(idx)
                yield raw

        # harness side ----------------------------------------------------
        def _hand_over(self, item, timeout):
            """Give one item to the listener and wait until it has been
            processed (the listener came back for the next one) - counted,
            so that a listener that has not even started yet cannot be
            mistaken for one that is done."""
            with self.cv:
                target = self.done_count + 1
            self.idle.clear()
            self.inbox.put(item)
            waited = 0.0
            with self.cv:
                while self.done_count < target:
                    self.cv.wait(0.05)
                    waited += 0.05
                    t = getattr(self, 'thread', None)
                    if (t is not None and not t.is_alive()) or \
                            waited > timeout:
                        raise TimeoutError('listener did not come back')

        def release_one(self, timeout=10):
            """Hand the next pending channel message to the listener and wait
            until it has been processed."""
            if not self.pending:
                return None
            idx = self.pending.pop(0)
            self._hand_over((idx, self.chan.log[idx]), timeout)
            return idx

        def inject(self, raw, timeout=10):
            """Put an arbitrary raw message on this host's inbox only."""
            self._hand_over((-1, raw), timeout)

        def stop(self):
            self.inbox.put(StopIteration)

    return MemPubSub()


def make_async_manager(channel, write_only=False, logger=None,
                       listen_faults=None):
    from socketio import async_pubsub_manager

    class AsyncMemPubSub(async_pubsub_manager.AsyncPubSubManager):
        name = 'amem'

        def __init__(self):
            super().__init__(channel='verif', write_only=write_only,
                             logger=logger)
            self.chan = channel
            self.pending = []
            self.inbox = None
            self.consumed = []
            self.listen_calls = 0
            self.listen_faults = listen_faults if listen_faults is not None \
                else set()
            if not write_only:
                channel.hosts.append(self)

        async def _publish(self, data):
            if getattr(self, 'fail_next_publish', False):
                self.fail_next_publish = False
                raise ConnectionError('injected publish failure')
            self.chan.publish(pickle.dumps(data), self)

        async def _listen(self):
            self.listen_calls += 1
            if getattr(self, 'fail_first_listens', 0) > 0:
                self.fail_first_listens -= 1
                raise ConnectionError('injected: backend unreachable')
            if self.inbox is None:
                self.inbox = asyncio.Queue()
            while True:
                item = await self.inbox.get()
                if item is StopIteration:
                    return
                idx, raw = item
                if idx in self.listen_faults:
                    self.listen_faults.discard(idx)
                    self.inbox.put_nowait((idx, raw))
                    raise ConnectionError('injected listen failure')
                self.consumed.append(idx)
                yield raw

        async def a_release_one(self):
            if not self.pending:
                return None
            idx = self.pending.pop(0)
            if self.inbox is None:
                self.inbox = asyncio.Queue()
            await self.inbox.put((idx, self.chan.log[idx]))
            return idx

        async def a_inject(self, raw):
            if self.inbox is None:
                self.inbox = asyncio.Queue()
            await self.inbox.put((-1, raw))

    return AsyncMemPubSub()
