"""Seeded generators over the quantifier domains (DESIGN 2.4)."""
import math

STR_ATOMS = ['', 'a', 'abc', '0', '12', '-', ',', '/', '?', '"', '\\', '[',
             '{', ' ', '\n', '\t', '\x00', '\x1e', '\x7f', 'é', 'ß', '中文',
             '😀', '\U0001F600\U0001F680', ' ', '﻿', 'null', 'true',
             '_placeholder', 'num', '1-', '2/ns,', '51-["x"]', 'b64', 'bQUJD']
INT_ATOMS = [0, 1, -1, 2, 9, 10, 255, 256, 2**31 - 1, -2**31, 2**53, 2**63 - 1,
             -2**63]
FLOAT_ATOMS = [0.0, -0.0, 1.5, -2.25, 1e-9, 1e15, 1e300, 3.141592653589793,
               0.1]
BYTES_ATOMS = [b'', b'\x00', b'a', b'\xff\xfe', bytes(range(256)),
               b'{"_placeholder":true,"num":0}', b'4', b'\x1e']


def gen_str(rng, maxlen=12):
    r = rng.random()
    if r < 0.35:
        return rng.choice(STR_ATOMS)
    if r < 0.5:
        return rng.choice(STR_ATOMS) + rng.choice(STR_ATOMS)
    n = rng.randint(0, maxlen)
    out = []
    for _ in range(n):
        k = rng.random()
        if k < 0.6:
            out.append(chr(rng.randint(32, 126)))
        elif k < 0.7:
            out.append(chr(rng.randint(0, 31)))
        elif k < 0.85:
            out.append(chr(rng.randint(0xa0, 0xd7ff)))
        elif k < 0.92:
            out.append(chr(rng.randint(0xe000, 0xffff)))
        else:
            out.append(chr(rng.randint(0x10000, 0x10ffff)))
    return ''.join(out)


def gen_bytes(rng, big=False):
    r = rng.random()
    if r < 0.4:
        return rng.choice(BYTES_ATOMS)
    if big and r < 0.45:
        return rng.randbytes(65536)
    return rng.randbytes(rng.randint(0, 40))


def gen_int(rng, bits=64):
    r = rng.random()
    if r < 0.5:
        return rng.choice(INT_ATOMS)
    if bits <= 64:
        return rng.randint(-2**63, 2**63 - 1)
    return rng.choice([1, -1]) * rng.randint(0, 10**rng.randint(1, 99))


def gen_float(rng):
    if rng.random() < 0.5:
        return rng.choice(FLOAT_ATOMS)
    f = rng.uniform(-1e6, 1e6) * 10 ** rng.randint(-20, 20)
    return f if math.isfinite(f) else 1.0


def gen_scalar(rng, with_bytes=True, bits=64):
    r = rng.random()
    if r < 0.08:
        return None
    if r < 0.16:
        return rng.choice([True, False])
    if r < 0.34:
        return gen_int(rng, bits)
    if r < 0.46:
        return gen_float(rng)
    if r < 0.75 or not with_bytes:
        return gen_str(rng)
    return gen_bytes(rng)


def gen_key(rng):
    r = rng.random()
    if r < 0.3:
        return rng.choice(['a', 'b', 'k', 'num', 'id', 'data', 'x y', '',
                           '0', 'é', '😀', 'type', 'nsp'])
    return gen_str(rng, 6)


def gen_tree(rng, depth=4, budget=None, with_bytes=True, bits=64,
             pbytes=None):
    """JSON-compatible tree with bytes leaves.  `budget` is a 1-element list
    bounding the node count."""
    if budget is None:
        budget = [40]
    budget[0] -= 1
    if depth <= 0 or budget[0] <= 0 or rng.random() < 0.35:
        if pbytes is not None and with_bytes and rng.random() < pbytes:
            return gen_bytes(rng)
        return gen_scalar(rng, with_bytes, bits)
    if rng.random() < 0.5:
        n = rng.choice([0, 1, 1, 2, 2, 3, 5])
        return [gen_tree(rng, depth - 1, budget, with_bytes, bits, pbytes)
                for _ in range(n)]
    n = rng.choice([0, 1, 1, 2, 2, 3, 4])
    d = {}
    for _ in range(n):
        k = gen_key(rng)
        if k == '_placeholder':
            continue
        d[k] = gen_tree(rng, depth - 1, budget, with_bytes, bits, pbytes)
    return d


def shape(x, depth=0):
    """Coarse structural signature of a payload (for distinct counting)."""
    if x is None:
        return 'n'
    if isinstance(x, bool):
        return 'T' if x else 'F'
    if isinstance(x, int):
        return 'i0' if x == 0 else ('i-' if x < 0 else 'i')
    if isinstance(x, float):
        return 'f'
    if isinstance(x, str):
        return 's0' if x == '' else ('s' if x.isascii() else 'su')
    if isinstance(x, (bytes, bytearray)):
        return 'b0' if len(x) == 0 else 'b'
    if isinstance(x, (list, tuple)):
        t = 't' if isinstance(x, tuple) else 'l'
        if depth > 3:
            return t + '..'
        return t + '(' + ','.join(shape(i, depth + 1) for i in x[:6]) + ')'
    if isinstance(x, dict):
        if depth > 3:
            return 'd..'
        return 'd(' + ','.join(shape(v, depth + 1)
                               for v in list(x.values())[:6]) + ')'
    return '?'


NS_ATOMS = ['/', '/a', '/b', '/chat', '/a-b', '/1', '/12', '/a/b', '/-',
            '/a1-', '/é', '/😀', '/A_b.c', '/ns with space', '/0-1',
            '/chat/', '/a/b/', '//', '/ /', '/a//b', '/.', '/#x', '/%2F']


def gen_namespace(rng, allow_none=False, simple=False):
    if allow_none and rng.random() < 0.15:
        return None
    if simple:
        return rng.choice(['/', '/a', '/b', '/c'])
    r = rng.random()
    if r < 0.6:
        return rng.choice(NS_ATOMS)
    s = gen_str(rng, 8).replace(',', '').replace('?', '')
    return '/' + s


ID_ATOMS = [None, None, 0, 1, 2, 9, 10, 11, 99, 100, 12345, 10**9, 10**18,
            10**50, 10**99, 10**100 - 1]


def gen_id(rng, small=False):
    if small:
        return rng.choice([None, None, 0, 1, 2, 3, 7, 10, 99, 10**20])
    if rng.random() < 0.7:
        return rng.choice(ID_ATOMS)
    return rng.randint(0, 10 ** rng.randint(1, 100) - 1)


RESERVED = {'connect', 'disconnect', 'connect_error', '*', 'message'}
EVENT_ATOMS = ['ev', 'my event', 'msg', 'a', 'x-y', 'é', '😀', '0', '12',
               'foo.bar', 'on_x', 'Connect', '', 'a,b', '/x']


def gen_event_name(rng):
    for _ in range(20):
        s = rng.choice(EVENT_ATOMS) if rng.random() < 0.7 else gen_str(rng, 8)
        if s not in RESERVED:
            return s
    return 'ev'


def gen_args(rng, with_bytes=True, depth=3, bits=64, maxn=4):
    """A handler argument list."""
    n = rng.choice([0, 1, 1, 1, 2, 2, 3, maxn])
    return [gen_tree(rng, depth, [12], with_bytes, bits) for _ in range(n)]


def gen_deep(rng, with_bytes=True):
    """A value with a leaf (a byte string, if allowed) 9 to 40 containers
    down: nesting depth is not limited by the protocol."""
    depth = rng.choice([9, 12, 17, 20, 33, 40])
    leaf = gen_bytes(rng) if with_bytes else 'leaf'
    v = leaf
    for i in range(depth):
        if rng.random() < 0.5:
            v = [v] if rng.random() < 0.7 else ['x', v, i]
        else:
            v = {'k%d' % (i % 3): v}
    return v


def gen_payload_arg(rng, with_bytes=True, bits=64):
    """What an application passes as `data` to emit(): None, a tuple, or a
    single value (incl. a list, which is ONE argument)."""
    r = rng.random()
    if r > 0.97:
        return gen_deep(rng, with_bytes)
    if r < 0.1:
        return None
    if r < 0.4:
        return tuple(gen_args(rng, with_bytes, 3, bits))
    return gen_tree(rng, 4, [20], with_bytes, bits)


def expected_args(data):
    """The argument rule of C02/C05: tuple -> several, None -> none, anything
    else exactly one."""
    if data is None:
        return []
    if isinstance(data, tuple):
        return list(data)
    return [data]
