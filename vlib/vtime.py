"""Virtual time: an asyncio loop whose clock jumps to the next timer when
idle, and a threading.Event look-alike whose wait() is scripted."""
import asyncio
import heapq
import selectors
import threading


class VirtualLoop(asyncio.SelectorEventLoop):
    """time() is a virtual clock; when nothing is ready the clock jumps to the
    next scheduled timer, so sleep()/wait_for() are instantaneous and their
    durations are exactly measurable."""

    def __init__(self):
        super().__init__(selectors.SelectSelector())
        self._vnow = 1000.0
        self.sleeps = []

    def time(self):
        return self._vnow

    def _run_once(self):
        # drop cancelled timers at the head, then jump if idle
        while self._scheduled and self._scheduled[0]._cancelled:
            h = heapq.heappop(self._scheduled)
            h._scheduled = False
            self._timer_cancelled_count = max(
                0, self._timer_cancelled_count - 1)
        if not self._ready and self._scheduled:
            when = self._scheduled[0]._when
            if when > self._vnow:
                self._vnow = when
        super()._run_once()


async def settle(loop=None, rounds=500, horizon=5.0):
    """Let every spawned task run to its next real suspension.  Timers due
    within `horizon` virtual seconds (handler pauses) are waited for; later
    ones (call() timeouts, back-off sleeps) are left pending."""
    loop = loop or asyncio.get_event_loop()
    t_end = loop.time() + horizon
    for _ in range(rounds):
        await asyncio.sleep(0)
        if loop._ready:
            continue
        timers = [h._when for h in loop._scheduled if not h._cancelled
                  and h._when <= t_end]
        if not timers:
            return
        await asyncio.sleep(max(0.0, min(timers) - loop.time()))


class VirtualEvent:
    """Replacement for threading.Event handed out by eio.create_event().

    wait(timeout) records the timeout and calls `on_wait(event, timeout)`,
    the scenario script ("while it waits: deliver X / lose transport / let it
    time out"), then returns the flag like threading.Event.wait does.
    """

    def __init__(self, log=None, on_wait=None):
        self._flag = False
        self.log = log if log is not None else []
        self.on_wait = on_wait
        self.lock = threading.Lock()

    def is_set(self):
        return self._flag

    isSet = is_set

    def set(self):
        self._flag = True

    def clear(self):
        self._flag = False

    def wait(self, timeout=None):
        self.log.append(('wait', timeout))
        if not self._flag and self.on_wait is not None:
            self.on_wait(self, timeout)
        return self._flag
